#!/usr/bin/env python3
"""Generates /verif/mutants/*.patch: a catalogue of deliberate property-breaking
changes (and benign controls) used to prove that the checks are sensitive and
do not raise false alarms. Each entry edits a scratch export of /repo's HEAD
and stores the unified diff. Run: python3 selftest/make_mutants.py
"""
import json, os, shutil, subprocess, sys, tempfile

REPO = os.environ.get("VERIF_REPO", "/repo")
OUT = os.path.join(os.path.dirname(os.path.abspath(__file__)), "..", "mutants")

# (name, property expected to fire (None = benign), description, [(file, old, new), ...])
M = []

def m(name, prop, desc, *edits):
    M.append((name, prop, desc, edits))

# ---------------- C20 ----------------
m("c20-scratch-digits", "C20", "String formats through a package-level scratch digits value (data race, wrong results under interleaving)",
  ("format.go", "\t} else {\n\t\tvar digs digits\n\t\td.digits(&digs)\n\n\t\tprec := 0\n\t\tif digs.ndig != 0 {\n\t\t\tprec = digs.ndig - 1\n\t\t}\n\n\t\texp := digs.exp + prec\n\n\t\tif exp < -4 || exp >= 6 {\n\t\t\tbuf = digs.fmtE(buf,",
   "\t} else {\n\t\tdigs := &stringScratch\n\t\td.digits(digs)\n\n\t\tprec := 0\n\t\tif digs.ndig != 0 {\n\t\t\tprec = digs.ndig - 1\n\t\t}\n\n\t\texp := digs.exp + prec\n\n\t\tif exp < -4 || exp >= 6 {\n\t\t\tbuf = digs.fmtE(buf,"),
  ("format.go", "type digits struct {", "var stringScratch digits\n\ntype digits struct {"))

m("c20-fromint-nocopy", "C20", "FromInt divides its argument in place instead of a private copy (modifies a shared input)",
  ("convert.go", "\t\ti = new(big.Int).Set(i)\n\t\tr := new(big.Int)", "\t\tr := new(big.Int)"))

m("c20-exp-mode", "C20", "Exp temporarily switches DefaultRoundingMode and restores it",
  ("exp.go", "\tdSig, dExp := d.decompose()\n\tdExp -= exponentBias\n\tl10 := dSig.log10()\n\n\tif int(dExp) > 5-l10 {\n\t\tif d.Signbit() {\n\t\t\treturn zero(false)\n\t\t}\n\n\t\treturn inf(false)\n\t}\n\n\tres, trunc := decomposed192{",
   "\tdSig, dExp := d.decompose()\n\tdExp -= exponentBias\n\tl10 := dSig.log10()\n\n\tif int(dExp) > 5-l10 {\n\t\tif d.Signbit() {\n\t\t\treturn zero(false)\n\t\t}\n\n\t\treturn inf(false)\n\t}\n\n\tsaved := DefaultRoundingMode\n\tDefaultRoundingMode = ToNearestEven\n\tdefer func() { DefaultRoundingMode = saved }()\n\n\tres, trunc := decomposed192{", 1))

m("c20-marshalbinary-static", "C20", "MarshalBinary returns a slice of a package-level array",
  ("binary.go", "\tdata := make([]byte, 16)\n", "\tdata := marshalBuf[:]\n"),
  ("binary.go", "// MarshalBinary implements", "var marshalBuf [16]byte\n\n// MarshalBinary implements"))

m("c20-lazy-table", "C20", "digitPairs is filled lazily behind an unsynchronised bool",
  ("format.go", "func (d Decimal) digits(digs *digits) {\n\t*digs = digits{}", "func (d Decimal) digits(digs *digits) {\n\tif !digitPairsReady {\n\t\tfor i := range digitPairs {\n\t\t\tdigitPairs[i] = [2]byte{'0' + byte(i/10), '0' + byte(i%10)}\n\t\t}\n\n\t\tdigitPairsReady = true\n\t}\n\n\t*digs = digits{}"),
  ("format.go", "type digits struct {", "var digitPairsReady bool\n\ntype digits struct {"))

m("c20-unmarshaltext-inplace", "C20", "UnmarshalText lower-cases its input slice in place before parsing",
  ("scan.go", "func (d *Decimal) UnmarshalText(data []byte) error {\n", "func (d *Decimal) UnmarshalText(data []byte) error {\n\tfor i, c := range data {\n\t\tif c >= 'A' && c <= 'Z' && c != 'E' {\n\t\t\tdata[i] = c + 'a' - 'A'\n\t\t}\n\t}\n\n"))

m("c20-parse-cache", "C20", "Parse keeps a mutex-guarded one-entry cache that ignores DefaultRoundingMode",
  ("scan.go", "func Parse(s string) (Decimal, error) {\n\treturn parse(s, payloadOpParse)\n}",
   "func Parse(s string) (Decimal, error) {\n\tparseCacheMu.Lock()\n\tif parseCacheOK && parseCacheKey == s {\n\t\tv := parseCacheVal\n\t\tparseCacheMu.Unlock()\n\t\treturn v, nil\n\t}\n\tparseCacheMu.Unlock()\n\n\tv, err := parse(s, payloadOpParse)\n\tif err == nil && len(s) > 34 {\n\t\tparseCacheMu.Lock()\n\t\tparseCacheKey, parseCacheVal, parseCacheOK = s, v, true\n\t\tparseCacheMu.Unlock()\n\t}\n\n\treturn v, err\n}\n\nvar (\n\tparseCacheMu  sync.Mutex\n\tparseCacheKey string\n\tparseCacheVal Decimal\n\tparseCacheOK  bool\n)"),
  ("scan.go", "\t\"strconv\"\n)", "\t\"strconv\"\n\t\"sync\"\n)"))

m("c20-canonical-loop", "C20", "Canonical never terminates for values with exponent above zero whose coefficient cannot be scaled (missing break)",
  ("decimal.go", "\t\tif tmp[1] > 0x0002_7fff_ffff_ffff {\n\t\t\tbreak\n\t\t}\n\n\t\tsig = tmp\n\t\texp--",
   "\t\tif tmp[1] > 0x0002_7fff_ffff_ffff {\n\t\t\tcontinue\n\t\t}\n\n\t\tsig = tmp\n\t\texp--"))

m("c20-dig-short", "C20", "digits.dig is too short for 35-digit coefficients (index out of range panic)",
  ("format.go", "\tdig  [39]byte", "\tdig  [34]byte"))

m("c20-scan-recover", "C05", "Scan swallows panics raised by the fmt.ScanState (read errors vanish)",
  ("scan.go", "func (d *Decimal) Scan(f fmt.ScanState, verb rune) error {\n", "func (d *Decimal) Scan(f fmt.ScanState, verb rune) (err error) {\n\tdefer func() {\n\t\tif r := recover(); r != nil {\n\t\t\terr = nil\n\t\t}\n\t}()\n\n"))

m("c20-special-alias", "C20", "appendSpecial hands out the package-level text slice when no buffer is supplied",
  ("format.go", "\tif cap(buf) == 0 {\n\t\tsizeHint := len(value)\n\t\tif width > sizeHint {\n\t\t\tsizeHint = width\n\t\t}\n\n\t\tbuf = make([]byte, 0, sizeHint)\n\t}\n\n\tn := len(value)",
   "\tif cap(buf) == 0 {\n\t\tif width <= len(value) {\n\t\t\treturn value\n\t\t}\n\n\t\tbuf = make([]byte, 0, width)\n\t}\n\n\tn := len(value)"))

m("c20-benign-once", None, "benign: a sync.Once-guarded copy of a table (no behavioural change)",
  ("format.go", "func (d Decimal) digits(digs *digits) {\n\t*digs = digits{}", "func (d Decimal) digits(digs *digits) {\n\tpairsOnce.Do(func() { pairsCopy = digitPairs })\n\n\t*digs = digits{}"),
  ("format.go", "type digits struct {", "var (\n\tpairsOnce sync.Once\n\tpairsCopy [100][2]byte\n)\n\ntype digits struct {"),
  ("format.go", "import (\n\t\"fmt\"\n", "import (\n\t\"fmt\"\n\t\"sync\"\n"))

m("c20-benign-copy", None, "benign: FromRat works on private copies of numerator and denominator",
  ("convert.go", "\tn := new(big.Int).Abs(num)\n\td := denom\n", "\tn := new(big.Int).Abs(num)\n\td := new(big.Int).Set(denom)\n"))

# ---------------- C05 ----------------
m("c05-token-err", "C05", "Scan ignores the error returned by ScanState.Token (value of a fragment)",
  ("scan.go", "\tif err != nil {\n\t\treturn err\n\t}\n\n\ttmp, err := parseNumber(tok, neg, true)", "\t_ = err\n\n\ttmp, err := parseNumber(tok, neg, true)"))

m("c05-fixed-mode", "C05", "parseNumber always rounds to nearest even, ignoring DefaultRoundingMode",
  ("scan.go", "\tsig, exp16 := DefaultRoundingMode.reduce128(neg, sig, int16(exp)+exponentBias, trunc)", "\tsig, exp16 := ToNearestEven.reduce128(neg, sig, int16(exp)+exponentBias, trunc)"))

m("c05-scan-lower-nan", "C05", "Scan no longer recognises a lower-case 'n' as the start of NaN",
  ("scan.go", "\tif r == 'N' || r == 'n' {\n\t\tr2, _, err := f.ReadRune()", "\tif r == 'N' {\n\t\tr2, _, err := f.ReadRune()"))

m("c05-sticky-lost", "C05", "digits beyond the accumulator only count as sticky when they are not '0' or '5'",
  ("scan.go", "\t\t\t\t\tif c != '0' {\n\t\t\t\t\t\ttrunc = 1\n\t\t\t\t\t}", "\t\t\t\t\tif c != '0' && c != '5' {\n\t\t\t\t\t\ttrunc = 1\n\t\t\t\t\t}"))

m("c05-sign-eof", "C05", "Scan treats a read error right after the sign as the end of input and returns zero",
  ("scan.go", "\tr, _, err = f.ReadRune()\n\tif err != nil {\n\t\tif errors.Is(err, io.EOF) {\n\t\t\treturn io.ErrUnexpectedEOF\n\t\t}\n\n\t\treturn err\n\t}\n\n\tif r == 'I' || r == 'i' {",
   "\tr, _, err = f.ReadRune()\n\tif err != nil {\n\t\tif errors.Is(err, io.EOF) {\n\t\t\treturn io.ErrUnexpectedEOF\n\t\t}\n\n\t\t*d = zero(neg)\n\t\treturn nil\n\t}\n\n\tif r == 'I' || r == 'i' {"))

m("c05-revert-underscore", "C05", "revert of the fix that rejects '_' before '.' (1_.5 accepted again)",
  ("scan.go", "\t\t\tif sawdot || (i > 0 && d[i-1] == '_') {", "\t\t\tif sawdot {"))

# ---------------- C06 ----------------
m("c06-marshaltext-threshold", "C06", "MarshalText switches to exponent form one decade later than String and %v",
  ("format.go", "\texp := digs.exp + prec\n\n\tif exp < -4 || exp >= 6 {\n\t\treturn digs.fmtE(nil, prec, 0, false, false, false, true, false, false, 'e'), nil\n\t}",
   "\texp := digs.exp + prec\n\n\tif exp < -4 || exp >= 7 {\n\t\treturn digs.fmtE(nil, prec, 0, false, false, false, true, false, false, 'e'), nil\n\t}"))

m("c06-string-padexp", "C06", "String prints one-digit exponents without the leading zero (1e+7)",
  ("format.go", "\t\tif exp < -4 || exp >= 6 {\n\t\t\tbuf = digs.fmtE(buf, prec, 0, false, false, false, true, false, false, 'e')",
   "\t\tif exp < -4 || exp >= 6 {\n\t\t\tbuf = digs.fmtE(buf, prec, 0, false, false, false, false, false, false, 'e')"))

m("c06-trailing-pair", "C06", "digits() keeps a trailing zero when the low pair is x0 after a 00 pair was stripped",
  ("format.go", "\t\t\tif n == 0 && pair[1] == '0' {\n\t\t\t\tdigs.exp++\n\t\t\t\tdigs.dig[n] = pair[0]\n\t\t\t\tn++\n\t\t\t\tcontinue\n\t\t\t}\n\n\t\t\tif pair[0] == '0' && sig64 == 0 {",
   "\t\t\tif n == 0 && pair[1] == '0' && digs.exp <= int(exp-exponentBias) {\n\t\t\t\tdigs.exp++\n\t\t\t\tdigs.dig[n] = pair[0]\n\t\t\t\tn++\n\t\t\t\tcontinue\n\t\t\t}\n\n\t\t\tif pair[0] == '0' && sig64 == 0 {"))

m("c06-format-g-threshold", "C06", "Append with precision -1 and 'g' uses 21 as the exponent threshold",
  ("format.go", "\t\tif prec < 0 {\n\t\t\tmaxprec = 6\n\t\t\tprec = digs.ndig\n\t\t} else {", "\t\tif prec < 0 {\n\t\t\tmaxprec = 21\n\t\t\tprec = digs.ndig\n\t\t} else {"))

# ---------------- C07 ----------------
m("c07-revert-pad", "C07", "revert of the pad fix (Append into a non-empty buffer pads the whole buffer)",
  ("format.go", "\tn := len(buf) - start\n\tp := width - n", "\tstart = 0\n\tn := len(buf) - start\n\tp := width - n"))

m("c07-revert-zero-minus", "C07", "revert of the '0' with '-' fix",
  ("format.go", "\t\tpadZero:   f.Flag('0') && !f.Flag('-'),", "\t\tpadZero:   f.Flag('0'),"))

m("c07-revert-tie", "C07", "revert of the first-digit tie fix",
  ("format.go", "\tif d.ndig == prec+1 && d.dig[prec] == '5' {", "\tif d.ndig > 1 && d.ndig == prec+1 && d.dig[prec] == '5' {"),
  ("format.go", "\t\tup = prec > 0 && (d.dig[prec-1]-'0')%2 != 0", "\t\tup = (d.dig[prec-1]-'0')%2 != 0"))

m("c07-tie-up", "C07", "exact ties are always rounded up",
  ("format.go", "\t\tup = prec > 0 && (d.dig[prec-1]-'0')%2 != 0", "\t\tup = true"))

m("c07-sharp-g", "C07", "'#' with g and no precision pads to 5 instead of 6 significant digits",
  ("format.go", "\t\t\t\tif digs.ndig < 6 {\n\t\t\t\t\tprec = 6", "\t\t\t\tif digs.ndig < 6 {\n\t\t\t\t\tprec = 5"))

m("c07-pad-sign", "C07", "zero padding goes in front of a ' ' sign placeholder",
  ("format.go", "\t\tif padZero && (d.neg || printSign || padSign) {", "\t\tif padZero && (d.neg || printSign) {"))

# ---------------- C10 ----------------
m("c10-revert-int-stale", "C10", "revert of the Int(z) fix (stale z for tiny values)",
  ("convert.go", "\t\treturn i.SetUint64(0)", "\t\treturn i"))

m("c10-int64-bound", "C10", "Int64 treats exactly MaxInt64 as out of range",
  ("convert.go", "\t\tif sig[0] > math.MaxInt64 {\n\t\t\treturn math.MaxInt64, false", "\t\tif sig[0] >= math.MaxInt64 {\n\t\t\treturn math.MaxInt64, false"))

m("c10-fromint-sticky", "C10", "FromInt forgets the remainders of the 1e18 reduction loop",
  ("convert.go", "\t\t\t\tbl = i.BitLen()\n\n\t\t\t\tif r.Sign() != 0 {\n\t\t\t\t\ttrunc = 1\n\t\t\t\t}\n\t\t\t}\n\t\t}\n\n\t\tten := big.NewInt(10)",
   "\t\t\t\tbl = i.BitLen()\n\t\t\t}\n\t\t}\n\n\t\tten := big.NewInt(10)"))

m("c10-rat-stale-denom", "C10", "Rat(z) multiplies into a reused z instead of overwriting it for positive exponents",
  ("convert.go", "\t\tif exp > 0 {\n\t\t\tbigsig.Mul(bigsig, bigexp)\n\t\t\tr.SetInt(bigsig)", "\t\tif exp > 0 {\n\t\t\tbigsig.Mul(bigsig, bigexp)\n\t\t\tr.Num().Set(bigsig)"))

m("c10-uint32-trunc", "C10", "Uint32 drops the range check after scaling (silently truncates to 32 bits)",
  ("convert.go", "\tif sig[0] > math.MaxUint32 {\n\t\treturn math.MaxUint32, false\n\t}\n\n\treturn uint32(sig[0]), true", "\treturn uint32(sig[0]), true"))

# ---------------- C13 ----------------
m("c13-null-zero", "C13", "UnmarshalJSON(null) resets the receiver to zero",
  ("json.go", "\tif string(data) == \"null\" {\n\t\treturn nil\n\t}", "\tif string(data) == \"null\" {\n\t\t*d = Decimal{}\n\t\treturn nil\n\t}"))

m("c13-plus-exp", "C13", "MarshalJSON drops the digit after the point for two-digit coefficients in exponent form",
  ("json.go", "\tif exp < -6 || exp >= 20 {\n\t\treturn digs.fmtE(nil, prec, 0, false, false, false, false, false, false, 'e'), nil",
   "\tif exp < -6 || exp >= 20 {\n\t\tif prec == 1 && digs.dig[1] == '5' {\n\t\t\tprec = 0\n\t\t}\n\n\t\treturn digs.fmtE(nil, prec, 0, false, false, false, false, false, false, 'e'), nil"))

m("c13-sep-allowed", "C13", "UnmarshalJSON accepts digit separators",
  ("json.go", "\ttmp, err := parseNumber(data[i:], neg, false)", "\ttmp, err := parseNumber(data[i:], neg, true)"))

m("c13-array-ok", "C13", "UnmarshalJSON swallows the error for arrays",
  ("json.go", "\t\t\tcase '[':\n\t\t\t\treturn &json.UnmarshalTypeError{\n\t\t\t\t\tValue: \"array\",\n\t\t\t\t\tType:  reflect.TypeOf(Decimal{}),\n\t\t\t\t}", "\t\t\tcase '[':\n\t\t\t\tif len(data) == 2 {\n\t\t\t\t\treturn nil\n\t\t\t\t}\n\n\t\t\t\treturn &json.UnmarshalTypeError{\n\t\t\t\t\tValue: \"array\",\n\t\t\t\t\tType:  reflect.TypeOf(Decimal{}),\n\t\t\t\t}"))

m("c13-leading-dot", "C13", "MarshalJSON prints values below one without the leading zero for 35-digit coefficients",
  ("json.go", "\tprec = 0\n\tif digs.exp < 0 {\n\t\tprec = -digs.exp\n\t}\n\n\treturn digs.fmtF(nil, prec, 0, false, false, false, false, false), nil",
   "\tprec = 0\n\tif digs.exp < 0 {\n\t\tprec = -digs.exp\n\t}\n\n\tout := digs.fmtF(nil, prec, 0, false, false, false, false, false)\n\tif digs.ndig == 35 && len(out) > 2 && out[0] == '0' && out[1] == '.' {\n\t\tout = out[1:]\n\t}\n\n\treturn out, nil"))

# ---------------- C14 ----------------
m("c14-trim-off", "C14", "Decompose trims one byte too many when the coefficient's top byte is 0x01",
  ("compose.go", "\ti := 0\n\tfor ; i < len(sig); i++ {\n\t\tif sig[i] != 0 {\n\t\t\tbreak\n\t\t}\n\t}\n\n\tsig = sig[i:]\n\n\treturn 0, d.Signbit(), sig, int32(exp) - exponentBias",
   "\ti := 0\n\tfor ; i < len(sig); i++ {\n\t\tif sig[i] > 1 || (sig[i] == 1 && i == 15) {\n\t\t\tbreak\n\t\t}\n\t}\n\n\tsig = sig[i:]\n\n\treturn 0, d.Signbit(), sig, int32(exp) - exponentBias"))

m("c14-reuse-short", "C14", "Decompose reuses a caller buffer whose capacity is only 8 for small coefficients without clearing it",
  ("compose.go", "\tvar sig []byte\n\tif cap(buf) >= 16 {\n\t\tsig = buf[:16]\n\t} else {\n\t\tsig = make([]byte, 16)\n\t}\n",
   "\tvar sig []byte\n\tif cap(buf) >= 16 {\n\t\tsig = buf[:16]\n\t} else if cap(buf) >= 8 && sig128[1] == 0 {\n\t\tsig = buf[:8]\n\t\tsig[0] = byte(sig128[0] >> 56)\n\t\tsig[1] = byte(sig128[0] >> 48)\n\t\tsig[2] = byte(sig128[0] >> 40)\n\t\tsig[3] = byte(sig128[0] >> 32)\n\t\tsig[4] = byte(sig128[0] >> 24)\n\t\tsig[5] = byte(sig128[0] >> 16)\n\t\tsig[6] = byte(sig128[0] >> 8)\n\t\tif len(buf) < 8 {\n\t\t\tsig[7] = byte(sig128[0])\n\t\t}\n\n\t\ti := 0\n\t\tfor ; i < len(sig); i++ {\n\t\t\tif sig[i] != 0 {\n\t\t\t\tbreak\n\t\t\t}\n\t\t}\n\n\t\treturn 0, d.Signbit(), sig[i:], int32(exp) - exponentBias\n\t} else {\n\t\tsig = make([]byte, 16)\n\t}\n"))

m("c14-compose-inplace", "C14", "Compose clears leading bytes of its input slice while trimming",
  ("compose.go", "\t\tfor ; i < l; i++ {\n\t\t\tif sig[i] != 0 {\n\t\t\t\tbreak\n\t\t\t}\n\t\t}\n\n\t\tif i == l {", "\t\tfor ; i < l; i++ {\n\t\t\tif sig[i] != 0 {\n\t\t\t\tif i > 0 && l > 40 {\n\t\t\t\t\tsig[0] = sig[i]\n\t\t\t\t}\n\n\t\t\t\tbreak\n\t\t\t}\n\t\t}\n\n\t\tif i == l {"))

m("c14-exp-boundary", "C14", "Compose rejects exponents exactly one below the minimum although the coefficient ends in zero",
  ("compose.go", "\t\tif exp < minUnbiasedExponent-maxDigits {\n\t\t\treturn &composeRangeError{}\n\t\t}", "\t\tif exp < minUnbiasedExponent-maxDigits+34 {\n\t\t\treturn &composeRangeError{}\n\t\t}"))

m("c14-round-instead", "C14", "Compose rounds away a non-zero last digit instead of reporting an error when the coefficient is one digit too long",
  ("compose.go", "\t\tfor sig128[1] > 0x0002_7fff_ffff_ffff {\n\t\t\tvar rem uint64\n\t\t\tsig128, rem = sig128.div10()\n\n\t\t\tif rem != 0 {\n\t\t\t\treturn &composeRangeError{}\n\t\t\t}",
   "\t\tfor sig128[1] > 0x0002_7fff_ffff_ffff {\n\t\t\tvar rem uint64\n\t\t\tsig128, rem = sig128.div10()\n\n\t\t\tif rem > 5 {\n\t\t\t\treturn &composeRangeError{}\n\t\t\t}"))

m("c20-format-scratch", "C20", "the fmt.Formatter/Decimal.Append path formats through a package-level scratch digits value (only reachable through fmt or Decimal.Append)",
  ("format.go", "func (d Decimal) format(buf []byte, args *formatArgs) []byte {\n\tvar digs digits\n\td.digits(&digs)\n", "func (d Decimal) format(buf []byte, args *formatArgs) []byte {\n\tdigs := &formatScratch\n\td.digits(digs)\n"),
  ("format.go", "type digits struct {", "var formatScratch digits\n\ntype digits struct {"))

m("c05-mode-once", "C05", "parseNumber captures DefaultRoundingMode the first time it runs (sync.Once) and keeps using it for the life-time of the process",
  ("scan.go", "\tsig, exp16 := DefaultRoundingMode.reduce128(neg, sig, int16(exp)+exponentBias, trunc)", "\tparseModeOnce.Do(func() { parseMode = DefaultRoundingMode })\n\n\tsig, exp16 := parseMode.reduce128(neg, sig, int16(exp)+exponentBias, trunc)"),
  ("scan.go", "type parseNumberRangeError struct{}", "var (\n\tparseModeOnce sync.Once\n\tparseMode     RoundingMode\n)\n\ntype parseNumberRangeError struct{}"),
  ("scan.go", "\t\"strconv\"\n)", "\t\"strconv\"\n\t\"sync\"\n)"))

m("c20-lazy-pow-benign-race", "C20", "a lazily filled copy of the powers-of-ten table: every goroutine writes identical values (results stay right, but it is a data race)",
  ("int.go", "func (n uint128) log10() int {", "var (\n\tpow10Lazy      [39]uint128\n\tpow10LazyReady bool\n)\n\nfunc lazyPow10(i int) uint128 {\n\tif !pow10LazyReady {\n\t\tfor j := range pow10Lazy {\n\t\t\tpow10Lazy[j] = uint128PowersOf10[j]\n\t\t}\n\n\t\tpow10LazyReady = true\n\t}\n\n\treturn pow10Lazy[i]\n}\n\nfunc (n uint128) log10() int {\n\t_ = lazyPow10(0)\n"))

m("c20-benign-mutex-cache", None, "benign: Parse keeps a mutex-guarded one-entry cache keyed by the text AND the rounding mode (correct; exercises the Lock rewriting under pre-emption inside the critical section)",
  ("scan.go", "func Parse(s string) (Decimal, error) {\n\treturn parse(s, payloadOpParse)\n}",
   "func Parse(s string) (Decimal, error) {\n\tmode := DefaultRoundingMode\n\n\tparseCacheMu.Lock()\n\tif parseCacheOK && parseCacheKey == s && parseCacheMode == mode {\n\t\tv := parseCacheVal\n\t\tparseCacheMu.Unlock()\n\t\treturn v, nil\n\t}\n\tparseCacheMu.Unlock()\n\n\tv, err := parse(s, payloadOpParse)\n\tif err == nil && len(s) > 34 {\n\t\tparseCacheMu.Lock()\n\t\tparseCacheKey, parseCacheVal, parseCacheMode, parseCacheOK = strings.Clone(s), v, mode, true\n\t\tparseCacheMu.Unlock()\n\t}\n\n\treturn v, err\n}\n\nvar (\n\tparseCacheMu   sync.Mutex\n\tparseCacheKey  string\n\tparseCacheVal  Decimal\n\tparseCacheMode RoundingMode\n\tparseCacheOK   bool\n)"),
  ("scan.go", "\t\"strconv\"\n)", "\t\"strconv\"\n\t\"strings\"\n\t\"sync\"\n)"))

m("c20-lock-order", "C20", "two mutex-guarded counters taken in opposite order by String and Parse (lock-order inversion: deadlock only under a particular interleaving)",
  ("scan.go", "func Parse(s string) (Decimal, error) {\n\treturn parse(s, payloadOpParse)\n}",
   "func Parse(s string) (Decimal, error) {\n\tstatParseMu.Lock()\n\tstatParse++\n\tstatFormatMu.Lock()\n\tstatTotal = statParse + statFormat\n\tstatFormatMu.Unlock()\n\tstatParseMu.Unlock()\n\n\treturn parse(s, payloadOpParse)\n}\n\nvar (\n\tstatParseMu  sync.Mutex\n\tstatFormatMu sync.Mutex\n\tstatParse    int\n\tstatFormat   int\n\tstatTotal    int\n)"),
  ("scan.go", "\t\"strconv\"\n)", "\t\"strconv\"\n\t\"sync\"\n)"),
  ("format.go", "func (d Decimal) String() string {\n\tvar buf []byte", "func (d Decimal) String() string {\n\tstatFormatMu.Lock()\n\tstatFormat++\n\tstatParseMu.Lock()\n\tstatTotal = statParse + statFormat\n\tstatParseMu.Unlock()\n\tstatFormatMu.Unlock()\n\n\tvar buf []byte"))

m("c20-benign-lazy-once", None, "benign: the (pinned) digitPairs table is cleared at init and filled on first use under sync.Once (a properly synchronised lazy initialisation of one of the library's own tables)",
  ("format.go", "func (d Decimal) digits(digs *digits) {\n\t*digs = digits{}", "func (d Decimal) digits(digs *digits) {\n\tdigitPairsOnce.Do(func() {\n\t\tfor i := range digitPairs {\n\t\t\tdigitPairs[i] = [2]byte{'0' + byte(i/10), '0' + byte(i%10)}\n\t\t}\n\t})\n\n\t*digs = digits{}"),
  ("format.go", "type digits struct {", "var digitPairsOnce sync.Once\n\nfunc init() {\n\tfor i := range digitPairs {\n\t\tdigitPairs[i] = [2]byte{}\n\t}\n}\n\ntype digits struct {"),
  ("format.go", "import (\n\t\"fmt\"\n", "import (\n\t\"fmt\"\n\t\"sync\"\n"))

def main():
    os.makedirs(OUT, exist_ok=True)
    for f in os.listdir(OUT):
        if f.endswith(".patch") or f == "catalogue.json":
            os.remove(os.path.join(OUT, f))
    cat = []
    tmp = tempfile.mkdtemp(prefix="verif-mut-")
    try:
        base = os.path.join(tmp, "a")
        subprocess.check_call(f"mkdir -p {base} && git -C {REPO} archive HEAD | tar -x -C {base}", shell=True)
        for name, prop, desc, edits in M:
            work = os.path.join(tmp, "b")
            shutil.rmtree(work, ignore_errors=True)
            shutil.copytree(base, work)
            ok = True
            for e in edits:
                fn, old, new = e[0], e[1], e[2]
                cnt = e[3] if len(e) > 3 else None
                p = os.path.join(work, fn)
                s = open(p).read()
                if s.count(old) < 1 or (cnt is None and s.count(old) != 1):
                    print(f"{name}: pattern in {fn} occurs {s.count(old)} times", file=sys.stderr)
                    ok = False
                    break
                s = s.replace(old, new, 1)
                open(p, "w").write(s)
            if not ok:
                continue
            subprocess.call(["gofmt", "-w", work], stdout=subprocess.DEVNULL)
            d = subprocess.run(["diff", "-ruN", "a", "b"], cwd=tmp, capture_output=True, text=True).stdout
            if not d:
                print(f"{name}: empty diff", file=sys.stderr)
                continue
            open(os.path.join(OUT, name + ".patch"), "w").write(d)
            cat.append({"name": name, "property": prop, "description": desc})
        json.dump(cat, open(os.path.join(OUT, "catalogue.json"), "w"), indent=1)
        print(f"{len(cat)} mutants written to {OUT}")
    finally:
        shutil.rmtree(tmp, ignore_errors=True)

if __name__ == "__main__":
    main()
