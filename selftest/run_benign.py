#!/usr/bin/env python3
"""False-alarm self-test: applies each behaviour-preserving change in
/verif/benign/<id>/patch.diff to a scratch worktree of /repo and runs every
check's quick tier against it; all of them must exit 0.
    python3 selftest/run_benign.py [--confirm] [id ...]
--confirm first runs the repository's own suite (and -race) on the changed tree.
"""
import json, os, subprocess, sys, time

V = os.path.dirname(os.path.dirname(os.path.abspath(__file__)))
REPO = "/repo"
ENV = dict(os.environ, GOFLAGS="-mod=mod", GOPROXY="off", GOSUMDB="off", GOTOOLCHAIN="local")
argv = sys.argv[1:]
confirm = "--confirm" in argv
ids = [a for a in argv if not a.startswith("--")]
bd = os.path.join(V, "benign")
CHECKS = ["C05", "C06", "C07", "C10", "C13", "C14", "C20"]
bad = 0
for name in sorted(os.listdir(bd)):
    d = os.path.join(bd, name)
    if not os.path.isdir(d) or (ids and name not in ids):
        continue
    mp = os.path.join(d, "meta.json")
    meta = json.load(open(mp)) if os.path.exists(mp) else {}
    wt = f"/tmp/verif-benign-{os.getpid()}-{name}"
    subprocess.run(["git", "-C", REPO, "worktree", "remove", "--force", wt], capture_output=True)
    # the change is applied to the current HEAD (the tree with all repairs);
    # only if it no longer applies there, to the commit it was written against
    subprocess.check_call(["git", "-C", REPO, "worktree", "add", "-q", "--detach", wt, "HEAD"])
    try:
        a = subprocess.run(["git", "-C", wt, "apply", os.path.join(d, "patch.diff")], capture_output=True, text=True)
        if a.returncode != 0 and meta.get("base"):
            subprocess.check_call(["git", "-C", wt, "checkout", "-q", "--detach", meta["base"]])
            a = subprocess.run(["git", "-C", wt, "apply", os.path.join(d, "patch.diff")], capture_output=True, text=True)
            print(f"{name}: applied to its base {meta['base']} (does not apply to HEAD)")
        if a.returncode != 0:
            print(f"{name}: patch does not apply: {a.stderr}")
            bad += 1
            continue
        if confirm:
            t = subprocess.run(["go", "test", "-vet=off", "-count=1", "./..."], cwd=wt, env=ENV, capture_output=True, text=True)
            meta["suite_passes"] = t.returncode == 0
            r = subprocess.run(["go", "test", "-race", "-vet=off", "-count=1", "-run", "Test|Example", "./..."], cwd=wt, env=ENV, capture_output=True, text=True)
            meta["suite_passes_under_race"] = r.returncode == 0
            print(f"{name}: suite passes={meta['suite_passes']} under -race={meta['suite_passes_under_race']}")
        res = meta.setdefault("checks", {})
        for prop in CHECKS:
            t0 = time.time()
            c = subprocess.run([os.path.join(V, "check"), prop, "quick"], env=dict(ENV, VERIF_REPO=wt), capture_output=True, text=True)
            lines = [l for l in c.stdout.splitlines() if l.strip()]
            res[f"{prop}/quick"] = {"exit": c.returncode, "wall_s": round(time.time() - t0, 1), "first_lines": lines[:4]}
            flag = "" if c.returncode == 0 else "   <-- ALARM ON A BEHAVIOUR-PRESERVING CHANGE"
            print(f"{name}: ./check {prop} quick -> exit {c.returncode} ({round(time.time()-t0,1)}s){flag}")
            if c.returncode != 0:
                bad += 1
                print("   " + "\n   ".join(lines[:5]))
                print(c.stderr[-600:])
            for f in os.listdir(os.path.join(V, "replays")):
                if f.endswith(".json") and c.returncode == 0:
                    os.remove(os.path.join(V, "replays", f))
        json.dump(meta, open(mp, "w"), indent=1, sort_keys=True)
    finally:
        subprocess.run(["git", "-C", REPO, "worktree", "remove", "--force", wt], capture_output=True)
print(f"{bad} alarms / failures")
sys.exit(1 if bad else 0)
