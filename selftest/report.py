#!/usr/bin/env python3
"""Prints the sensitivity tables of DESIGN.md section 10 from
mutants/results.json (+ catalogue.json) and seeded/*/meta.json."""
import json, os, glob
V = os.path.dirname(os.path.dirname(os.path.abspath(__file__)))
cat = {c["name"]: c for c in json.load(open(os.path.join(V, "mutants", "catalogue.json")))}
res = json.load(open(os.path.join(V, "mutants", "results.json")))
print("| catalogue entry | targets | what it does | check run | outcome | repo's own tests |")
print("|---|---|---|---|---|---|")
for name in sorted(cat):
    c, r = cat[name], res.get(name)
    if not r:
        print(f"| {name} | {c['property'] or 'benign'} | {c['description']} | - | not run | - |")
        continue
    want = "exit 1" if c["property"] else "exit 0"
    out = f"exit {r['exit']}" + (" (as required)" if r["as_expected"] else f" (**expected {want}**)")
    cls = ""
    for l in r.get("first_lines", []):
        if "class=" in l:
            cls = l.strip().split()[0].replace("class=", "")
            break
    if cls:
        out += f", {cls}"
    rt = r.get("repo_tests_pass")
    print(f"| {name} | {c['property'] or 'benign'} | {c['description']} | {r['check']} quick | {out} | {'pass' if rt else ('FAIL (the suite already catches it)' if rt is False else '?')} |")
print()
print("| seeded change | property | what it needs to manifest | checks run | outcome |")
print("|---|---|---|---|---|")
for mp in sorted(glob.glob(os.path.join(V, "seeded", "*", "meta.json"))):
    m = json.load(open(mp))
    name = os.path.basename(os.path.dirname(mp))
    outs = []
    for k, v in sorted(m.get("checks", {}).items()):
        cls = ""
        for l in v.get("first_lines", []):
            if "class=" in l:
                cls = l.strip().split()[0].replace("class=", "")
                break
        outs.append(f"{k}: exit {v['exit']}" + (f" ({cls})" if cls else ""))
    hist = m.get("history", "")
    print(f"| {name} | {m.get('property')} | {m.get('needs','')} | {', '.join(sorted(m.get('checks', {})))} | {'; '.join(outs)}{(' — ' + hist) if hist else ''} |")
