#!/usr/bin/env python3
"""Sensitivity self-test: applies each patch of /verif/mutants to a scratch
worktree of /repo and runs the quick check of the property it is meant to
break (expects exit 1 with a VIOLATION line), or the C20 quick check for the
benign controls (expects exit 0). Usage:
    python3 selftest/run_mutants.py [--tests] [name ...]
--tests additionally runs the repository's own test suite on every mutant
(a mutant is only interesting if that suite still passes).
Results are written to /verif/mutants/results.json.
"""
import json, os, subprocess, sys, time

V = os.path.dirname(os.path.dirname(os.path.abspath(__file__)))
REPO = "/repo"
ENV = dict(os.environ, GOFLAGS="-mod=mod", GOPROXY="off", GOSUMDB="off", GOTOOLCHAIN="local")
args = [a for a in sys.argv[1:] if not a.startswith("--")]
run_tests = "--tests" in sys.argv
cat = json.load(open(os.path.join(V, "mutants", "catalogue.json")))
respath = os.path.join(V, "mutants", "results.json")
results = json.load(open(respath)) if os.path.exists(respath) else {}
bad = 0
for ent in cat:
    name, prop = ent["name"], ent["property"]
    if args and name not in args:
        continue
    wt = f"/tmp/verif-mut-{os.getpid()}-{name}"
    subprocess.run(["git", "-C", REPO, "worktree", "remove", "--force", wt], capture_output=True)
    subprocess.check_call(["git", "-C", REPO, "worktree", "add", "-q", "--detach", wt, "HEAD"])
    try:
        p = subprocess.run(["patch", "-p1", "-s", "-i", os.path.join(V, "mutants", name + ".patch")], cwd=wt, capture_output=True, text=True)
        if p.returncode != 0:
            print(f"{name}: patch does not apply: {p.stdout}{p.stderr}")
            bad += 1
            continue
        b = subprocess.run(["go", "build", "./..."], cwd=wt, env=ENV, capture_output=True, text=True)
        if b.returncode != 0:
            print(f"{name}: does not compile: {b.stderr[:400]}")
            bad += 1
            continue
        r = {"property": prop, "description": ent["description"]}
        if run_tests:
            t = subprocess.run(["go", "test", "-vet=off", "-count=1", "./..."], cwd=wt, env=ENV, capture_output=True, text=True)
            r["repo_tests_pass"] = t.returncode == 0
        check = prop or "C20"
        t0 = time.time()
        c = subprocess.run([os.path.join(V, "check"), check, "quick"], env=dict(ENV, VERIF_REPO=wt), capture_output=True, text=True)
        r["check"] = check
        r["exit"] = c.returncode
        r["wall_s"] = round(time.time() - t0, 1)
        lines = [l for l in c.stdout.splitlines() if l.strip()]
        r["first_lines"] = lines[:3]
        want = 1 if prop else 0
        r["as_expected"] = c.returncode == want
        if not r["as_expected"]:
            bad += 1
            print(f"{name}: check {check} exited {c.returncode}, expected {want}\n  " + "\n  ".join(lines[:4]) + c.stderr[-600:])
        else:
            print(f"{name}: ok ({check} exit {c.returncode}, {r['wall_s']}s" + (", repo tests pass=%s" % r.get("repo_tests_pass") if run_tests else "") + ")")
        results[name] = r
        # replay files written for mutants are not findings on the real tree
        for f in os.listdir(os.path.join(V, "replays")):
            if f.endswith(".json"):
                os.remove(os.path.join(V, "replays", f))
    finally:
        subprocess.run(["git", "-C", REPO, "worktree", "remove", "--force", wt], capture_output=True)
json.dump(results, open(respath, "w"), indent=1, sort_keys=True)
print(f"{bad} unexpected outcomes")
sys.exit(1 if bad else 0)
