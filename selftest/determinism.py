#!/usr/bin/env python3
"""Determinism self-test of the simulator (see DESIGN.md 2.7).

For every profile: N consecutive run indices are executed
  - by one process, by 4 processes (stride 4) and by 16 processes (stride 16),
  - with GOMAXPROCS 1, 4 and 16,
  - by the plain build, the -race build and the second-toolchain build,
and the per-run hash of the complete event and result log (every scheduling
event, every operation result of the sequential and of the scheduled pass)
must be identical in all of them. Exit 0 on success, 2 on any divergence.
"""
import json, os, subprocess, sys
from concurrent.futures import ThreadPoolExecutor

W, seed = sys.argv[1], sys.argv[2]
N = int(os.environ.get("DET_RUNS", "160"))
profiles = ["P20", "P05", "P06", "P07", "P10", "P13", "P14"]

def run(binary, profile, frm, n, stride, gomaxprocs, tag):
    out = os.path.join(W, f"det-{profile}-{tag}-{frm}.jsonl")
    env = dict(os.environ, GOMAXPROCS=str(gomaxprocs), GORACE="halt_on_error=1 exitcode=66")
    r = subprocess.run([os.path.join(W, binary), "-profile", profile, "-seed", seed, "-from", str(frm), "-n", str(n),
                        "-stride", str(stride), "-hashlog", "-out", out], env=env, capture_output=True, text=True)
    if r.returncode != 0:
        print(f"determinism: {binary} {profile} from={frm} exited {r.returncode}: {r.stderr[-2000:]}")
        return None
    h = {}
    for line in open(out):
        j = json.loads(line)
        if "run" in j and "hash" in j:
            h[j["run"]] = j["hash"]
    os.remove(out)
    return h

def config(binary, profile, procs, gmp, tag):
    n = (N + procs - 1) // procs
    jobs = [(binary, profile, w, n, procs, gmp, f"{tag}-p{procs}-g{gmp}") for w in range(procs)]
    with ThreadPoolExecutor(max_workers=16) as ex:
        res = list(ex.map(lambda a: run(*a), jobs))
    merged = {}
    for r in res:
        if r is None:
            return None
        merged.update(r)
    return {k: v for k, v in merged.items() if k < N}

bad = 0
processes = 0
for prof in profiles:
    base = config("worker", prof, 1, 1, "plain")
    processes += 1
    if base is None or len(base) != N:
        print(f"determinism: {prof}: baseline incomplete")
        bad += 1
        continue
    configs = [("worker", 4, 4, "plain"), ("worker", 16, 16, "plain"), ("worker", 16, 1, "plain"), ("worker", 1, 16, "plain-again")]
    # the race build is only used for C20 (profile P20); the stream profiles
    # share simulated streams between tasks by design and are not built with -race
    if os.path.exists(os.path.join(W, "worker-race")) and prof in ("P20", "P07", "P10", "P14"):
        configs += [("worker-race", 16, 4, "race"), ("worker-race", 4, 1, "race")]
    if os.path.exists(os.path.join(W, "worker-alt")) and prof not in ("P06", "P07", "P13", "P05", "P20"):
        # profiles that go through fmt/encoding/json may legitimately differ between
        # standard libraries (that is what the alt build is for); the others must not
        configs += [("worker-alt", 8, 1, "alt")]
    for binary, procs, gmp, tag in configs:
        got = config(binary, prof, procs, gmp, tag)
        processes += procs
        if got is None:
            bad += 1
            continue
        diff = [r for r in base if got.get(r) != base[r]]
        if diff:
            bad += 1
            print(f"determinism: {prof}: {binary} procs={procs} GOMAXPROCS={gmp}: {len(diff)} of {N} runs differ, e.g. run {diff[0]}: {base[diff[0]]} vs {got.get(diff[0])}")
    print(f"determinism: {prof}: {N} runs x {len(configs)+1} configurations agree" if not bad else f"determinism: {prof}: checked")
print(f"determinism: {processes} processes, {'FAILED' if bad else 'all event-log hashes identical'}")
sys.exit(2 if bad else 0)
