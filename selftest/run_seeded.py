#!/usr/bin/env python3
"""Runs the checks against the independently written seeded changes in
/verif/seeded/<id>/ (patch.diff + demo_test.go + meta.json).
    python3 selftest/run_seeded.py [--confirm] [--tier quick|thorough] [id ...]
--confirm first re-establishes, in a scratch worktree, that the change compiles,
passes the repository's own suite, and that the demonstration fails with it
and passes without it. Nothing is ever applied to /repo itself.
"""
import json, os, subprocess, sys, time

V = os.path.dirname(os.path.dirname(os.path.abspath(__file__)))
REPO = "/repo"
ENV = dict(os.environ, GOFLAGS="-mod=mod", GOPROXY="off", GOSUMDB="off", GOTOOLCHAIN="local")
argv = sys.argv[1:]
confirm = "--confirm" in argv
tier = "quick"
if "--tier" in argv:
    tier = argv[argv.index("--tier") + 1]
ids = [a for a in argv if not a.startswith("--") and a not in ("quick", "thorough")]
sd = os.path.join(V, "seeded")
bad = 0
for name in sorted(os.listdir(sd)):
    d = os.path.join(sd, name)
    if not os.path.isdir(d) or (ids and name not in ids):
        continue
    meta_path = os.path.join(d, "meta.json")
    meta = json.load(open(meta_path)) if os.path.exists(meta_path) else {}
    wt = f"/tmp/verif-seed-{os.getpid()}-{name}"
    subprocess.run(["git", "-C", REPO, "worktree", "remove", "--force", wt], capture_output=True)
    # the change is applied to the current HEAD (the tree with all repairs);
    # only if it no longer applies there, to the commit it was written against
    subprocess.check_call(["git", "-C", REPO, "worktree", "add", "-q", "--detach", wt, "HEAD"])
    try:
        a = subprocess.run(["git", "-C", wt, "apply", os.path.join(d, "patch.diff")], capture_output=True, text=True)
        if a.returncode != 0 and meta.get("base"):
            subprocess.check_call(["git", "-C", wt, "checkout", "-q", "--detach", meta["base"]])
            a = subprocess.run(["git", "-C", wt, "apply", os.path.join(d, "patch.diff")], capture_output=True, text=True)
            print(f"{name}: applied to its base {meta['base']} (does not apply to HEAD)")
        if a.returncode != 0:
            print(f"{name}: patch does not apply: {a.stderr}")
            bad += 1
            continue
        if confirm:
            demo = os.path.join(wt, "zz_seeded_demo_test.go")
            t = subprocess.run(["go", "test", "-vet=off", "-count=1", "./..."], cwd=wt, env=ENV, capture_output=True, text=True)
            meta["suite_passes_with_change"] = t.returncode == 0
            subprocess.check_call(["cp", os.path.join(d, "demo_test.go"), demo])
            f = subprocess.run(["go", "test", "-vet=off", "-count=1", "-run", "TestSeededDemo", "."], cwd=wt, env=ENV, capture_output=True, text=True)
            meta["demo_fails_with_change"] = f.returncode != 0
            subprocess.check_call(["git", "-C", wt, "apply", "-R", os.path.join(d, "patch.diff")])
            g = subprocess.run(["go", "test", "-vet=off", "-count=1", "-run", "TestSeededDemo", "."], cwd=wt, env=ENV, capture_output=True, text=True)
            meta["demo_passes_without_change"] = g.returncode == 0
            subprocess.check_call(["git", "-C", wt, "apply", os.path.join(d, "patch.diff")])
            os.remove(demo)
            meta["confirmed_commands"] = ["git worktree add <scratch> HEAD; git apply patch.diff", "go test -vet=off -count=1 ./...", "go test -vet=off -count=1 -run TestSeededDemo . (with and without the change)"]
            print(f"{name}: suite passes={meta['suite_passes_with_change']} demo fails with={meta['demo_fails_with_change']} passes without={meta['demo_passes_without_change']}")
        res = meta.setdefault("checks", {})
        for prop in meta.get("run_checks", [meta.get("property", "C20")]):
            t0 = time.time()
            c = subprocess.run([os.path.join(V, "check"), prop, tier], env=dict(ENV, VERIF_REPO=wt), capture_output=True, text=True)
            lines = [l for l in c.stdout.splitlines() if l.strip()]
            res[f"{prop}/{tier}"] = {"exit": c.returncode, "wall_s": round(time.time() - t0, 1), "first_lines": lines[:3]}
            print(f"{name}: ./check {prop} {tier} -> exit {c.returncode} ({round(time.time()-t0,1)}s) {lines[0] if lines else ''}")
            if c.returncode == 2:
                print(c.stderr[-800:])
            for f in os.listdir(os.path.join(V, "replays")):
                if f.endswith(".json"):
                    os.remove(os.path.join(V, "replays", f))
        json.dump(meta, open(meta_path, "w"), indent=1, sort_keys=True)
    finally:
        subprocess.run(["git", "-C", REPO, "worktree", "remove", "--force", wt], capture_output=True)
sys.exit(1 if bad else 0)
