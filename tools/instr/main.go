// Command instr copies the non-test Go sources of the library's working tree
// into a scratch directory and rewrites the copy so that a simulator can own
// every statement boundary:
//
//   - verifStep(<site>) is inserted before every statement of every function
//     body (block lists, case bodies, loop bodies even when empty);
//   - a generated file declares VerifHook (nil by default, so the rewritten
//     code behaves like the original) and VerifShared(), which returns pointers
//     to every package-level variable of the copy for the immutability oracle;
//   - if the copy uses package sync, blocking primitives are turned into
//     yielding spin loops so a simulated task never parks inside the runtime
//     while holding the baton.
//
// Nothing in the source tree is modified. Positions are preserved with //line
// directives, so compiler diagnostics, panics and race reports point at the
// original files.
package main

import (
	"bytes"
	"encoding/json"
	"flag"
	"fmt"
	"go/ast"
	"go/importer"
	"go/parser"
	"go/printer"
	"go/token"
	"go/types"
	"io"
	"os"
	"path/filepath"
	"sort"
	"strings"
)

type site struct {
	pos  string
	fn   string
	kind string
}

var (
	sites    []site
	fset     = token.NewFileSet()
	srcRoot  string
	usesSync bool
)

func fatal(format string, a ...any) {
	fmt.Fprintf(os.Stderr, "instr: "+format+"\n", a...)
	os.Exit(2)
}

func main() {
	src := flag.String("src", "/repo", "library working tree")
	dst := flag.String("dst", "", "scratch directory for the instrumented copy")
	flag.Parse()
	if *dst == "" {
		fatal("-dst required")
	}
	srcRoot, _ = filepath.Abs(*src)
	if err := os.MkdirAll(*dst, 0o755); err != nil {
		fatal("%v", err)
	}

	// Copy go.mod / go.sum and every non-test .go file (sub-packages included,
	// in case a changed tree adds one); only the root package is instrumented.
	var rootFiles []string
	err := filepath.Walk(srcRoot, func(p string, info os.FileInfo, err error) error {
		if err != nil {
			return err
		}
		rel, _ := filepath.Rel(srcRoot, p)
		if info.IsDir() {
			base := filepath.Base(p)
			if rel != "." && (strings.HasPrefix(base, ".") || base == "testdata" || base == "vendor") {
				return filepath.SkipDir
			}
			return nil
		}
		base := filepath.Base(p)
		switch {
		case base == "go.mod" || base == "go.sum":
			return copyFile(p, filepath.Join(*dst, rel))
		case strings.HasSuffix(base, "_test.go"):
			return nil
		case strings.HasSuffix(base, ".go"):
			if filepath.Dir(rel) == "." {
				rootFiles = append(rootFiles, p)
				return nil
			}
			return copyFile(p, filepath.Join(*dst, rel))
		case strings.HasSuffix(base, ".s") || strings.HasSuffix(base, ".h"):
			return copyFile(p, filepath.Join(*dst, rel))
		}
		return nil
	})
	if err != nil {
		fatal("%v", err)
	}
	sort.Strings(rootFiles)

	for _, p := range rootFiles {
		f, err := parser.ParseFile(token.NewFileSet(), p, nil, parser.ImportsOnly)
		if err != nil {
			fatal("parse %s: %v", p, err)
		}
		for _, imp := range f.Imports {
			if imp.Path.Value == `"sync"` {
				usesSync = true
			}
		}
	}

	var pkgName string
	var globals []string
	type parsedFile struct {
		path string
		f    *ast.File
	}
	var parsed []parsedFile
	usesAtomic := false
	for _, p := range rootFiles {
		f, err := parser.ParseFile(fset, p, nil, parser.ParseComments)
		if err != nil {
			fatal("parse %s: %v", p, err)
		}
		if ignoredByBuildTag(f) {
			continue
		}
		for _, imp := range f.Imports {
			if imp.Path.Value == `"sync/atomic"` || imp.Path.Value == `"runtime"` || imp.Path.Value == `"time"` || imp.Path.Value == `"math/big"` {
				usesAtomic = true
			}
		}
		parsed = append(parsed, parsedFile{p, f})
	}
	if usesAtomic || usesSync {
		var files []*ast.File
		for _, pf := range parsed {
			files = append(files, pf.f)
		}
		rewriteAtomics(files)
	}
	for _, pf := range parsed {
		p, f := pf.path, pf.f
		collectUnsupported(f)
		if pkgName == "" {
			pkgName = f.Name.Name
		} else if pkgName != f.Name.Name {
			fatal("two packages in root: %s and %s", pkgName, f.Name.Name)
		}
		for _, d := range f.Decls {
			switch d := d.(type) {
			case *ast.FuncDecl:
				if d.Body != nil {
					name := d.Name.Name
					if d.Recv != nil && len(d.Recv.List) == 1 {
						name = recvName(d.Recv.List[0].Type) + "." + name
					}
					collectFuncInfo(d, name)
					instrBlock(d.Body, name)
				}
			case *ast.GenDecl:
				if d.Tok == token.VAR {
					for _, s := range d.Specs {
						vs := s.(*ast.ValueSpec)
						for _, n := range vs.Names {
							if n.Name != "_" {
								globals = append(globals, n.Name)
							}
						}
						// function literals in initialisers
						for _, v := range vs.Values {
							instrExprFuncLits(v, "init")
						}
					}
				}
			}
		}
		for _, imp := range f.Imports {
			path := strings.Trim(imp.Path.Value, "`\"")
			if sh, ok := shimFor[path]; ok {
				// randomness the simulator owns (shims.go)
				imp.Path.Value = fmt.Sprintf("%q", modulePath(*dst)+"/verifshim/"+sh[0])
				if imp.Name == nil && sh[0] == "randv2" {
					imp.Name = &ast.Ident{Name: "rand"}
				}
				shimsUsed[path] = true
			}
		}
		var buf bytes.Buffer
		cfg := printer.Config{Mode: printer.SourcePos | printer.TabIndent | printer.UseSpaces, Tabwidth: 8}
		if err := cfg.Fprint(&buf, fset, f); err != nil {
			fatal("print %s: %v", p, err)
		}
		out := filepath.Join(*dst, filepath.Base(p))
		if err := os.WriteFile(out, buf.Bytes(), 0o644); err != nil {
			fatal("%v", err)
		}
	}
	if pkgName == "" {
		fatal("no Go files in %s", srcRoot)
	}
	sort.Strings(globals)

	// Generated support file.
	var g bytes.Buffer
	fmt.Fprintf(&g, "// Code generated by verif instr. DO NOT EDIT.\n\npackage %s\n\n", pkgName)
	if onceSites > 0 {
		g.WriteString("import \"sync\"\n\n")
	}
	if clockSites > 0 {
		g.WriteString("import \"time\"\n\n")
	}
	if bigSites > 0 {
		g.WriteString("import \"math/big\"\n\n")
	}
	g.WriteString("// VerifClock, when non-nil, is the only clock the package reads (nanoseconds since the Unix epoch).\n")
	g.WriteString("var VerifClock func() int64\n\n")
	fmt.Fprintf(&g, "// VerifClockSites is the number of calls of time.Now, time.Since and time.Until routed through VerifClock.\nconst VerifClockSites = %d\n\n", clockSites)
	{
		var used []string
		for p := range shimsUsed {
			used = append(used, p)
		}
		sort.Strings(used)
		fmt.Fprintf(&g, "// VerifShims lists the packages replaced by simulator-owned stand-ins.\nvar VerifShims = %#v\n\n", used)
		for _, p := range used {
			sh := shimFor[p]
			dir := filepath.Join(*dst, "verifshim", sh[0])
			if err := os.MkdirAll(dir, 0o755); err != nil {
				fatal("%v", err)
			}
			if err := os.WriteFile(filepath.Join(dir, "shim.go"), []byte(sh[1]), 0o644); err != nil {
				fatal("%v", err)
			}
		}
	}
	if clockSites > 0 {
		g.WriteString(clockHelpers)
	}
	g.WriteString("// VerifHook, when non-nil, is called before every statement of the package.\n")
	g.WriteString("var VerifHook func(uint32)\n\n")
	g.WriteString("func verifStep(n uint32) {\n\tif h := VerifHook; h != nil {\n\t\th(n)\n\t}\n}\n\n")
	g.WriteString("// VerifLockHook, when non-nil, is told about every lock acquisition (kind 1),\n// release (0), read acquisition (2) and read release (3).\n")
	g.WriteString("var VerifLockHook func(kind int, lock any, site uint32)\n\n")
	g.WriteString("func verifLock(kind int, lock any, site uint32) {\n\tif h := VerifLockHook; h != nil {\n\t\th(kind, lock, site)\n\t}\n}\n\n")
	if atomicSites > 0 {
		g.WriteString(atomHelpers)
	}
	if onceSites > 0 {
		g.WriteString(onceHelper)
	}
	fmt.Fprintf(&g, "// VerifBigSites is the number of math/big calls whose work is charged to the logical clock.\nconst VerifBigSites = %d\n\n", bigSites)
	g.WriteString("// VerifCostHook, when non-nil, is told the estimated work of a math/big call before it runs.\nvar VerifCostHook func(site uint32, cost uint64)\n\n")
	if bigSites > 0 {
		g.WriteString(bigHelpers)
	}
	g.WriteString("// VerifShared returns the names of and pointers to every package-level variable.\n")
	g.WriteString("func VerifShared() ([]string, []any) {\n\treturn []string{")
	for _, n := range globals {
		fmt.Fprintf(&g, "%q, ", n)
	}
	g.WriteString("}, []any{")
	for _, n := range globals {
		fmt.Fprintf(&g, "&%s, ", n)
	}
	g.WriteString("}\n}\n\n")
	fmt.Fprintf(&g, "const VerifSiteCount = %d\n\n", len(sites))
	g.WriteString("// VerifSites maps a site number to its source position.\nvar VerifSites = [...]string{\n")
	for _, st := range sites {
		fmt.Fprintf(&g, "\t%q,\n", st.pos)
	}
	g.WriteString("}\n")
	if err := os.WriteFile(filepath.Join(*dst, "zz_verif_hook.go"), g.Bytes(), 0o644); err != nil {
		fatal("%v", err)
	}

	writeState(filepath.Join(*dst, "verif_state.json"), globals)

	var s bytes.Buffer
	for i, st := range sites {
		fmt.Fprintf(&s, "%d\t%s\t%s\t%s\n", i, st.pos, st.fn, st.kind)
	}
	if err := os.WriteFile(filepath.Join(*dst, "verif_sites.tsv"), s.Bytes(), 0o644); err != nil {
		fatal("%v", err)
	}
	fmt.Printf("instr: %d files, %d sites, %d globals, sync=%v, atomic operations=%d, math/big cost sites=%d\n", len(rootFiles), len(sites), len(globals), usesSync, atomicSites, bigSites)
}

// funcInfo is what the simulator needs to steer generation towards code that
// touches package-level state: which identifiers a function mentions and
// which functions it calls (by simple name; resolved against the list of
// package-level variables when the file is written).
type funcInfo struct {
	Name   string   `json:"name"`
	Idents []string `json:"-"`
	Refs   []string `json:"refs"`
	Calls  []string `json:"calls"`
	locals map[string]bool
}

var funcInfos []*funcInfo

func collectFuncInfo(d *ast.FuncDecl, name string) {
	fi := &funcInfo{Name: name, locals: map[string]bool{}}
	seenI, seenC := map[string]bool{}, map[string]bool{}
	ast.Inspect(d, func(n ast.Node) bool {
		switch n := n.(type) {
		case *ast.CallExpr:
			switch f := n.Fun.(type) {
			case *ast.Ident:
				if !seenC[f.Name] {
					seenC[f.Name] = true
					fi.Calls = append(fi.Calls, f.Name)
				}
			case *ast.SelectorExpr:
				if !seenC[f.Sel.Name] {
					seenC[f.Sel.Name] = true
					fi.Calls = append(fi.Calls, f.Sel.Name)
				}
			}
		case *ast.Ident:
			// an identifier that the parser resolved to a declaration inside
			// this function is a local; everything else may be package-level
			if n.Obj != nil {
				if pos := n.Obj.Pos(); pos >= d.Pos() && pos <= d.End() {
					return true
				}
			}
			if !seenI[n.Name] {
				seenI[n.Name] = true
				fi.Idents = append(fi.Idents, n.Name)
			}
		}
		return true
	})
	funcInfos = append(funcInfos, fi)
}

// unsupported lists constructs that let the library block or run code
// outside the simulator's control: goroutines, channels, select, WaitGroup,
// Cond. A tree that uses them cannot be simulated faithfully.
var unsupported []string

func collectUnsupported(f *ast.File) {
	note := func(n ast.Node, what string) {
		p := fset.Position(n.Pos())
		rel, err := filepath.Rel(srcRoot, p.Filename)
		if err != nil {
			rel = filepath.Base(p.Filename)
		}
		unsupported = append(unsupported, fmt.Sprintf("%s:%d %s", rel, p.Line, what))
	}
	ast.Inspect(f, func(n ast.Node) bool {
		switch n := n.(type) {
		case *ast.GoStmt:
			note(n, "go statement")
		case *ast.SelectStmt:
			note(n, "select")
		case *ast.SendStmt:
			note(n, "channel send")
		case *ast.ChanType:
			note(n, "channel type")
		case *ast.UnaryExpr:
			if n.Op == token.ARROW {
				note(n, "channel receive")
			}
		case *ast.SelectorExpr:
			if x, ok := n.X.(*ast.Ident); ok && x.Name == "sync" && (n.Sel.Name == "WaitGroup" || n.Sel.Name == "Cond" || n.Sel.Name == "NewCond") {
				note(n, "sync."+n.Sel.Name)
			}
		}
		return true
	})
}

func writeState(path string, globals []string) {
	gset := map[string]bool{}
	for _, g := range globals {
		gset[g] = true
	}
	for _, fi := range funcInfos {
		fi.Refs = []string{}
		for _, id := range fi.Idents {
			if gset[id] {
				fi.Refs = append(fi.Refs, id)
			}
		}
		if fi.Calls == nil {
			fi.Calls = []string{}
		}
	}
	if unsupported == nil {
		unsupported = []string{}
	}
	b, err := json.MarshalIndent(map[string]any{"globals": globals, "funcs": funcInfos, "unsupported": unsupported}, "", " ")
	if err != nil {
		fatal("%v", err)
	}
	if err := os.WriteFile(path, b, 0o644); err != nil {
		fatal("%v", err)
	}
}

func ignoredByBuildTag(f *ast.File) bool {
	for _, cg := range f.Comments {
		if cg.Pos() > f.Package {
			break
		}
		for _, c := range cg.List {
			if strings.HasPrefix(c.Text, "//go:build ") {
				expr := strings.TrimSpace(strings.TrimPrefix(c.Text, "//go:build "))
				// The tree has no build constraints; a changed tree might. Only
				// the trivially false ones are dropped, everything else is kept.
				if expr == "ignore" || expr == "never" {
					return true
				}
			}
		}
	}
	return false
}

func recvName(e ast.Expr) string {
	switch e := e.(type) {
	case *ast.StarExpr:
		return recvName(e.X)
	case *ast.Ident:
		return e.Name
	case *ast.IndexExpr:
		return recvName(e.X)
	case *ast.IndexListExpr:
		return recvName(e.X)
	}
	return "?"
}

func copyFile(from, to string) error {
	if err := os.MkdirAll(filepath.Dir(to), 0o755); err != nil {
		return err
	}
	in, err := os.Open(from)
	if err != nil {
		return err
	}
	defer in.Close()
	out, err := os.Create(to)
	if err != nil {
		return err
	}
	if _, err := io.Copy(out, in); err != nil {
		out.Close()
		return err
	}
	return out.Close()
}

// spinFlag marks a site inside a loop that waits for another goroutine (a
// rewritten Lock, an empty loop body): the simulator hands the processor to
// another task there, otherwise the task that could end the wait never runs.
const spinFlag = 0x80000000

// lockFlag marks the site right after a lock was acquired.
const lockFlag = 0x40000000

// atomicFlag marks the site right before an atomic operation: a
// synchronisation event like a lock acquisition, but nothing is held.
const atomicFlag = 0x20000000

func newSite(pos token.Pos, fn, kind string) ast.Stmt {
	p := fset.Position(pos)
	rel, err := filepath.Rel(srcRoot, p.Filename)
	if err != nil {
		rel = filepath.Base(p.Filename)
	}
	id := len(sites)
	sites = append(sites, site{fmt.Sprintf("%s:%d", rel, p.Line), fn, kind})
	arg := fmt.Sprint(id)
	if kind == "spinlock" || kind == "emptybody" {
		arg = fmt.Sprintf("%d|0x%x", id, uint32(spinFlag))
	}
	if kind == "lockheld" {
		arg = fmt.Sprintf("%d|0x%x", id, uint32(lockFlag))
	}
	if kind == "lockreleased" {
		arg = fmt.Sprintf("%d|0x%x", id, uint32(atomicFlag))
	}
	return &ast.ExprStmt{X: &ast.CallExpr{
		Fun:  &ast.Ident{Name: "verifStep"},
		Args: []ast.Expr{&ast.BasicLit{Kind: token.INT, Value: arg}},
	}}
}

// instrList returns list with a step inserted before every statement.
func instrList(list []ast.Stmt, fn string, anchor token.Pos, forceOne bool) []ast.Stmt {
	out := make([]ast.Stmt, 0, 2*len(list)+1)
	if len(list) == 0 && forceOne {
		out = append(out, newSite(anchor, fn, "emptybody"))
	}
	for _, s := range list {
		out = append(out, newSite(s.Pos(), fn, stmtKind(s)))
		instrStmt(s, fn)
		if usesSync {
			s = rewriteSync(s, fn)
		}
		out = append(out, s)
	}
	return out
}

// Special "sites" understood by the simulator's hook.
const (
	siteNoYieldEnter = 0xFFFFFFF0
	siteNoYieldLeave = 0xFFFFFFF1
)

func stepCall(id uint32) ast.Stmt {
	return &ast.ExprStmt{X: &ast.CallExpr{
		Fun:  &ast.Ident{Name: "verifStep"},
		Args: []ast.Expr{&ast.BasicLit{Kind: token.INT, Value: fmt.Sprint(id)}},
	}}
}

// rewriteSync turns x.Lock()/x.RLock() statements into yielding spin loops
// over TryLock/TryRLock, and runs x.Do(f) with yields disabled, so that a
// simulated task never blocks inside the runtime while another task that
// could release it is parked by the simulator.
func lockEvent(kind int, x ast.Expr, site int) ast.Stmt {
	return &ast.ExprStmt{X: &ast.CallExpr{
		Fun: &ast.Ident{Name: "verifLock"},
		Args: []ast.Expr{
			&ast.BasicLit{Kind: token.INT, Value: fmt.Sprint(kind)},
			&ast.UnaryExpr{Op: token.AND, X: x},
			&ast.BasicLit{Kind: token.INT, Value: fmt.Sprint(site)},
		},
	}}
}

func rewriteSync(s ast.Stmt, fn string) ast.Stmt {
	if ds, ok := s.(*ast.DeferStmt); ok {
		// defer x.Unlock()  ->  defer func() { x.Unlock(); verifLock(0, &x, site) }()
		sel, ok := ds.Call.Fun.(*ast.SelectorExpr)
		if !ok || len(ds.Call.Args) != 0 || (sel.Sel.Name != "Unlock" && sel.Sel.Name != "RUnlock") {
			return s
		}
		kind := 0
		if sel.Sel.Name == "RUnlock" {
			kind = 3
		}
		body := &ast.BlockStmt{List: []ast.Stmt{&ast.ExprStmt{X: ds.Call}, lockEvent(kind, sel.X, len(sites))}}
		return &ast.DeferStmt{Call: &ast.CallExpr{Fun: &ast.FuncLit{Type: &ast.FuncType{Params: &ast.FieldList{}}, Body: body}}}
	}
	es, ok := s.(*ast.ExprStmt)
	if !ok {
		return s
	}
	call, ok := es.X.(*ast.CallExpr)
	if !ok {
		return s
	}
	sel, ok := call.Fun.(*ast.SelectorExpr)
	if !ok {
		return s
	}
	switch {
	case (sel.Sel.Name == "Lock" || sel.Sel.Name == "RLock") && len(call.Args) == 0:
		try, kind := "TryLock", 1
		if sel.Sel.Name == "RLock" {
			try, kind = "TryRLock", 2
		}
		cond := &ast.UnaryExpr{Op: token.NOT, X: &ast.CallExpr{
			Fun: &ast.SelectorExpr{X: sel.X, Sel: &ast.Ident{Name: try}},
		}}
		// spin until the lock is free, then report the acquisition: a good
		// moment to take the processor away (the task now holds a lock)
		loop := &ast.ForStmt{Cond: cond, Body: &ast.BlockStmt{List: []ast.Stmt{newSite(s.Pos(), fn, "spinlock")}}}
		held := newSite(s.Pos(), fn, "lockheld")
		return &ast.BlockStmt{List: []ast.Stmt{loop, lockEvent(kind, sel.X, len(sites)-1), held}}
	case (sel.Sel.Name == "Unlock" || sel.Sel.Name == "RUnlock") && len(call.Args) == 0:
		kind := 0
		if sel.Sel.Name == "RUnlock" {
			kind = 3
		}
		// the moment right after a release is a synchronisation event too:
		// whatever the caller learned inside the critical section may be stale
		// by the time it enters the next one (check-then-act across two
		// critical sections)
		ev := lockEvent(kind, sel.X, len(sites))
		return &ast.BlockStmt{List: []ast.Stmt{s, ev, newSite(s.Pos(), fn, "lockreleased")}}
	case sel.Sel.Name == "Do" && len(call.Args) == 1:
		body := &ast.BlockStmt{List: []ast.Stmt{
			stepCall(siteNoYieldEnter),
			&ast.DeferStmt{Call: &ast.CallExpr{Fun: &ast.Ident{Name: "verifStep"},
				Args: []ast.Expr{&ast.BasicLit{Kind: token.INT, Value: fmt.Sprint(uint32(siteNoYieldLeave))}}}},
			s,
		}}
		return &ast.ExprStmt{X: &ast.CallExpr{Fun: &ast.FuncLit{Type: &ast.FuncType{Params: &ast.FieldList{}}, Body: body}}}
	}
	return s
}

func stmtKind(s ast.Stmt) string {
	t := fmt.Sprintf("%T", s)
	return strings.TrimSuffix(strings.TrimPrefix(t, "*ast."), "Stmt")
}

func instrBlock(b *ast.BlockStmt, fn string) {
	if b == nil {
		return
	}
	b.List = instrList(b.List, fn, b.Lbrace, false)
}

func instrLoopBody(b *ast.BlockStmt, fn string) {
	if b == nil {
		return
	}
	b.List = instrList(b.List, fn, b.Lbrace, true)
}

func instrClauses(b *ast.BlockStmt, fn string) {
	for _, c := range b.List {
		switch c := c.(type) {
		case *ast.CaseClause:
			for _, e := range c.List {
				instrExprFuncLits(e, fn)
			}
			c.Body = instrList(c.Body, fn, c.Colon, false)
		case *ast.CommClause:
			if c.Comm != nil {
				instrStmtExprs(c.Comm, fn)
			}
			c.Body = instrList(c.Body, fn, c.Colon, false)
		}
	}
}

func instrStmt(s ast.Stmt, fn string) {
	switch s := s.(type) {
	case *ast.BlockStmt:
		instrBlock(s, fn)
	case *ast.IfStmt:
		if s.Init != nil {
			instrStmtExprs(s.Init, fn)
		}
		instrExprFuncLits(s.Cond, fn)
		instrBlock(s.Body, fn)
		if s.Else != nil {
			instrStmt(s.Else, fn)
		}
	case *ast.ForStmt:
		if s.Init != nil {
			instrStmtExprs(s.Init, fn)
		}
		if s.Cond != nil {
			instrExprFuncLits(s.Cond, fn)
		}
		if s.Post != nil {
			instrStmtExprs(s.Post, fn)
		}
		instrLoopBody(s.Body, fn)
	case *ast.RangeStmt:
		instrExprFuncLits(s.X, fn)
		instrLoopBody(s.Body, fn)
	case *ast.SwitchStmt:
		if s.Init != nil {
			instrStmtExprs(s.Init, fn)
		}
		if s.Tag != nil {
			instrExprFuncLits(s.Tag, fn)
		}
		instrClauses(s.Body, fn)
	case *ast.TypeSwitchStmt:
		if s.Init != nil {
			instrStmtExprs(s.Init, fn)
		}
		instrStmtExprs(s.Assign, fn)
		instrClauses(s.Body, fn)
	case *ast.SelectStmt:
		instrClauses(s.Body, fn)
	case *ast.LabeledStmt:
		instrStmt(s.Stmt, fn)
	default:
		instrStmtExprs(s, fn)
	}
}

// instrStmtExprs instruments function literals that occur inside the
// expressions of a simple statement, and rewrites sync calls.
func instrStmtExprs(s ast.Stmt, fn string) {
	ast.Inspect(s, func(n ast.Node) bool {
		if fl, ok := n.(*ast.FuncLit); ok {
			instrBlock(fl.Body, fn+".func")
			return false
		}
		return true
	})
}

func instrExprFuncLits(e ast.Expr, fn string) {
	if e == nil {
		return
	}
	ast.Inspect(e, func(n ast.Node) bool {
		if fl, ok := n.(*ast.FuncLit); ok {
			instrBlock(fl.Body, fn+".func")
			return false
		}
		return true
	})
}

// ---------- sync/atomic ----------

// Every operation of package sync/atomic becomes a scheduling point of its
// own: x.CompareAndSwap(a, b) is rewritten to
//
//	verifAtom21(site, x.CompareAndSwap, a, b)
//
// Go evaluates the method value and the arguments first and calls the helper
// last, and the helper yields before it performs the operation. A caller can
// therefore lose the processor between the atomic operations of one
// expression (between the Load that feeds a CompareAndSwap and the
// CompareAndSwap itself), which statement-level yields cannot express. The
// site carries the same flag as "a lock has just been acquired", so the
// schedule's "pre-empt at the k-th synchronisation event of this operation"
// entries address these points directly.
var atomicSites, onceSites, clockSites, bigSites int

var shimsUsed = map[string]bool{}

// modulePath reads the module path from the go.mod already copied to dst.
func modulePath(dst string) string {
	b, err := os.ReadFile(filepath.Join(dst, "go.mod"))
	if err != nil {
		fatal("%v", err)
	}
	for _, l := range strings.Split(string(b), "\n") {
		if f := strings.Fields(l); len(f) == 2 && f[0] == "module" {
			return strings.Trim(f[1], "\"")
		}
	}
	fatal("no module line in go.mod")
	return ""
}

const clockHelpers = `func verifNowT() time.Time {
	if h := VerifClock; h != nil {
		return time.Unix(0, h())
	}
	// package initialisation, before the simulator is attached: the start of
	// logical time (the copy never reads the real clock)
	return time.Unix(0, 1_700_000_000_000_000_000)
}

func verifNow(_ func() time.Time) time.Time { return verifNowT() }

func verifSince(_ func(time.Time) time.Duration, t time.Time) time.Duration { return verifNowT().Sub(t) }

func verifUntil(_ func(time.Time) time.Duration, t time.Time) time.Duration { return t.Sub(verifNowT()) }

`


const atomHelpers = `func verifAtom01[R any](site uint32, f func() R) R { verifStep(site); return f() }
func verifAtom10[A any](site uint32, f func(A), a A) { verifStep(site); f(a) }
func verifAtom11[A, R any](site uint32, f func(A) R, a A) R { verifStep(site); return f(a) }
func verifAtom20[A, B any](site uint32, f func(A, B), a A, b B) { verifStep(site); f(a, b) }
func verifAtom21[A, B, R any](site uint32, f func(A, B) R, a A, b B) R { verifStep(site); return f(a, b) }
func verifAtom31[A, B, C, R any](site uint32, f func(A, B, C) R, a A, b B, c C) R {
	verifStep(site)
	return f(a, b, c)
}
func verifCAS2[A, B any](site uint32, f func(A, B) bool, a A, b B) bool {
	verifStep(site)
	if f(a, b) {
		return true
	}
	verifStep(site&^0x20000000 | 0x80000000)
	return false
}
func verifCAS3[A, B, C any](site uint32, f func(A, B, C) bool, a A, b B, c C) bool {
	verifStep(site)
	if f(a, b, c) {
		return true
	}
	verifStep(site&^0x20000000 | 0x80000000)
	return false
}
func verifYield(site uint32, _ ...any) { verifStep(site) }

`

// ---------- math/big ----------
//
// The statement counter is the simulator's only clock, and time spent inside
// math/big is invisible to it: a changed tree that squares a number in place
// call after call (seeded change s15-w15d) kept a worker busy inside one
// library statement until the wall-clock watchdog ended the run without a
// verdict. The superlinear operations of *big.Int and *big.Rat are therefore
// charged to the logical clock before they run: x.Mul(a, b) becomes
// verifBig21(site, kind, x.Mul, a, b); the helper estimates the work from
// the operands' sizes (a schoolbook upper bound in units of a quarter word
// operation, so the estimate is a function of the arguments and of nothing
// else) and reports it through VerifCostHook; the simulator adds it to the
// operation's step count, and an operation whose next big call alone would
// exceed the step budget is ended *before* the call, as "does not terminate
// within the budget", with a replayable schedule.
var bigKinds = map[string]uint8{
	"Int.Mul": 1, "Int.Quo": 1, "Int.Rem": 1, "Int.QuoRem": 1, "Int.Div": 1, "Int.Mod": 1, "Int.DivMod": 1, "Int.ModInverse": 1,
	"Rat.Mul": 1, "Rat.Quo": 1, "Rat.Add": 1, "Rat.Sub": 1, "Rat.SetFrac": 1, "Rat.Cmp": 1,
	"Int.Exp": 2,
	"Int.Lsh": 3, "Int.SetBit": 3,
	"Int.Sqrt": 4, "Int.SetString": 4, "Rat.SetString": 4,
}

func rewriteBig(call *ast.CallExpr, tf *types.Func, fn string) {
	sig, ok := tf.Type().(*types.Signature)
	if !ok || sig.Recv() == nil || sig.Variadic() {
		return
	}
	rt := sig.Recv().Type()
	if p, ok := rt.(*types.Pointer); ok {
		rt = p.Elem()
	}
	named, ok := rt.(*types.Named)
	if !ok {
		return
	}
	kind, ok := bigKinds[named.Obj().Name()+"."+tf.Name()]
	if !ok {
		return
	}
	np, nr := sig.Params().Len(), sig.Results().Len()
	name := fmt.Sprintf("verifBig%d%d", np, nr)
	switch name {
	case "verifBig11", "verifBig21", "verifBig31", "verifBig22", "verifBig32":
	default:
		return
	}
	if len(call.Args) != np {
		return
	}
	if _, ok := call.Fun.(*ast.SelectorExpr); !ok {
		return
	}
	p := fset.Position(call.Pos())
	rel, err := filepath.Rel(srcRoot, p.Filename)
	if err != nil {
		rel = filepath.Base(p.Filename)
	}
	id := len(sites)
	sites = append(sites, site{fmt.Sprintf("%s:%d", rel, p.Line), fn, "big " + named.Obj().Name() + "." + tf.Name()})
	bigSites++
	args := []ast.Expr{
		&ast.BasicLit{Kind: token.INT, Value: fmt.Sprintf("%d", id)},
		&ast.BasicLit{Kind: token.INT, Value: fmt.Sprintf("%d", kind)},
		call.Fun,
	}
	call.Args = append(args, call.Args...)
	call.Fun = &ast.Ident{Name: name}
}

const bigHelpers = `func verifBigSize(v any) uint64 {
	switch x := v.(type) {
	case *big.Int:
		if x == nil {
			return 0
		}
		return uint64(x.BitLen())/64 + 1
	case *big.Rat:
		if x == nil {
			return 0
		}
		return uint64(x.Num().BitLen()+x.Denom().BitLen())/64 + 2
	case string:
		return uint64(len(x))/16 + 1
	}
	return 0
}

func verifSatMul(a, b uint64) uint64 {
	if a != 0 && b > (1<<62)/a {
		return 1 << 62
	}
	return a * b
}

// verifBigCost estimates the work of a math/big call from its operands: a
// schoolbook upper bound, in quarter word operations.
func verifBigCost(kind uint8, a, b, c any) uint64 {
	wa, wb := verifBigSize(a), verifBigSize(b)
	switch kind {
	case 1: // products, quotients, rational arithmetic
		return verifSatMul(wa, wb)/4 + 1
	case 2: // Exp(x, y, m)
		x, _ := a.(*big.Int)
		y, _ := b.(*big.Int)
		m, _ := c.(*big.Int)
		if x == nil || y == nil || y.Sign() <= 0 {
			return 1
		}
		if m != nil && m.Sign() != 0 {
			wm := verifBigSize(m)
			return verifSatMul(verifSatMul(wm, wm), uint64(y.BitLen()))/4 + 1
		}
		if x.BitLen() <= 1 {
			return 1
		}
		if !y.IsUint64() {
			return 1 << 62
		}
		rw := verifSatMul(uint64(x.BitLen()), y.Uint64())/64 + 1
		return verifSatMul(rw, rw)/4 + 1
	case 3: // shifts: the second operand is a bit count
		var n uint64
		switch v := b.(type) {
		case uint:
			n = uint64(v)
		case int:
			if v > 0 {
				n = uint64(v)
			}
		}
		return (wa+n/64)/4 + 1
	case 4: // quadratic in the first operand
		return verifSatMul(wa, wa)/4 + 1
	}
	return 1
}

func verifBigCharge(site uint32, cost uint64) {
	if h := VerifCostHook; h != nil {
		h(site, cost)
	}
}

func verifBig11[A, R any](site uint32, kind uint8, f func(A) R, a A) R {
	verifBigCharge(site, verifBigCost(kind, a, nil, nil))
	return f(a)
}
func verifBig21[A, B, R any](site uint32, kind uint8, f func(A, B) R, a A, b B) R {
	verifBigCharge(site, verifBigCost(kind, a, b, nil))
	return f(a, b)
}
func verifBig31[A, B, C, R any](site uint32, kind uint8, f func(A, B, C) R, a A, b B, c C) R {
	verifBigCharge(site, verifBigCost(kind, a, b, c))
	return f(a, b, c)
}
func verifBig22[A, B, R, S any](site uint32, kind uint8, f func(A, B) (R, S), a A, b B) (R, S) {
	verifBigCharge(site, verifBigCost(kind, a, b, nil))
	return f(a, b)
}
func verifBig32[A, B, C, R, S any](site uint32, kind uint8, f func(A, B, C) (R, S), a A, b B, c C) (R, S) {
	verifBigCharge(site, verifBigCost(kind, a, b, c))
	return f(a, b, c)
}

`

// once.Do(f) becomes verifOnceDo(site, &once, f). The real Do must never be
// contended (a caller waiting inside the runtime for a task the simulator has
// parked would block the whole simulation), and its function must be allowed
// to lose the processor like any other code (it may take locks other callers
// hold). So the simulator keeps its own record of which Once is running: the
// first caller runs the real Do, callers that arrive while it runs wait at a
// yielding spin site, callers that arrive afterwards go through the real
// Do's fast path (which also gives the race detector the happens-before edge
// the real program has). The record is a small slice accessed only by the
// task that holds the processor, in functions the detector does not see.
const onceHelper = `type verifOnceRec struct {
	o     *sync.Once
	state int // 1 running, 2 done
}

var verifOnces []verifOnceRec

//go:norace
func verifOnceEnter(o *sync.Once) int {
	for i := range verifOnces {
		if verifOnces[i].o == o {
			return verifOnces[i].state
		}
	}
	if len(verifOnces) > 1024 {
		// forget finished ones (their Do is a no-op anyway)
		k := 0
		for _, r := range verifOnces {
			if r.state == 1 {
				verifOnces[k] = r
				k++
			}
		}
		verifOnces = verifOnces[:k]
	}
	verifOnces = append(verifOnces, verifOnceRec{o, 1})
	return 0
}

//go:norace
func verifOnceLeave(o *sync.Once) {
	for i := range verifOnces {
		if verifOnces[i].o == o {
			verifOnces[i].state = 2
		}
	}
}

func verifOnceDo(site uint32, o *sync.Once, f func()) {
	for {
		switch verifOnceEnter(o) {
		case 0:
			defer verifOnceLeave(o) // as with sync.Once: done even if f panics
			o.Do(f)
			return
		case 2:
			o.Do(f) // fast path
			return
		}
		verifStep(site) // another caller is inside Do: wait for it
	}
}

`

func rewriteAtomics(files []*ast.File) {
	info := &types.Info{
		Uses:       map[*ast.Ident]types.Object{},
		Selections: map[*ast.SelectorExpr]*types.Selection{},
		Types:      map[ast.Expr]types.TypeAndValue{},
	}
	cfg := types.Config{Importer: importer.ForCompiler(fset, "source", nil), Error: func(error) {}}
	cfg.Check("lib", fset, files, info) // errors are left to the compiler
	for _, f := range files {
		var fn string
		for _, d := range f.Decls {
			fd, ok := d.(*ast.FuncDecl)
			if ok {
				fn = fd.Name.Name
				if fd.Recv != nil && len(fd.Recv.List) == 1 {
					fn = recvName(fd.Recv.List[0].Type) + "." + fn
				}
			} else {
				fn = "init"
			}
			ast.Inspect(d, func(n ast.Node) bool {
				call, ok := n.(*ast.CallExpr)
				if !ok {
					return true
				}
				var obj types.Object
				switch fun := call.Fun.(type) {
				case *ast.SelectorExpr:
					if sel := info.Selections[fun]; sel != nil {
						obj = sel.Obj()
					} else {
						obj = info.Uses[fun.Sel]
					}
				case *ast.Ident:
					obj = info.Uses[fun]
				}
				tf, ok := obj.(*types.Func)
				if !ok || tf.Pkg() == nil || call.Ellipsis.IsValid() {
					return true
				}
				if path := tf.Pkg().Path(); path == "runtime" && tf.Name() == "Gosched" && len(call.Args) == 0 ||
					path == "time" && tf.Name() == "Sleep" && len(call.Args) == 1 {
					// the caller gives up the processor: the simulator lets
					// another task run (there is no clock to advance)
					p := fset.Position(call.Pos())
					rel, err := filepath.Rel(srcRoot, p.Filename)
					if err != nil {
						rel = filepath.Base(p.Filename)
					}
					id := len(sites)
					sites = append(sites, site{fmt.Sprintf("%s:%d", rel, p.Line), fn, "yield " + tf.Name()})
					atomicSites++
					// the original function stays mentioned (its import stays used)
					call.Args = append([]ast.Expr{&ast.BasicLit{Kind: token.INT, Value: fmt.Sprintf("%d|0x%x", id, uint32(spinFlag))}, call.Fun}, call.Args...)
					call.Fun = &ast.Ident{Name: "verifYield"}
					return true
				}
				if tf.Pkg().Path() == "time" && (tf.Name() == "Now" && len(call.Args) == 0 || (tf.Name() == "Since" || tf.Name() == "Until") && len(call.Args) == 1) {
					if sig, ok := tf.Type().(*types.Signature); ok && sig.Recv() == nil {
						// the simulator's logical clock; the original function
						// stays mentioned (its import stays used)
						clockSites++
						call.Args = append([]ast.Expr{call.Fun}, call.Args...)
						call.Fun = &ast.Ident{Name: "verif" + tf.Name()}
						return true
					}
				}
				if tf.Pkg().Path() == "sync" && tf.Name() == "Do" && len(call.Args) == 1 {
					// (*sync.Once).Do: see verifOnceDo in the generated file
					sel, ok := call.Fun.(*ast.SelectorExpr)
					if !ok {
						return true
					}
					var key ast.Expr = sel.X
					if tv, ok := info.Types[sel.X]; ok {
						if _, isPtr := tv.Type.Underlying().(*types.Pointer); !isPtr {
							key = &ast.UnaryExpr{Op: token.AND, X: sel.X}
						}
					} else {
						return true
					}
					p := fset.Position(call.Pos())
					rel, err := filepath.Rel(srcRoot, p.Filename)
					if err != nil {
						rel = filepath.Base(p.Filename)
					}
					id := len(sites)
					sites = append(sites, site{fmt.Sprintf("%s:%d", rel, p.Line), fn, "once"})
					onceSites++
					call.Args = []ast.Expr{&ast.BasicLit{Kind: token.INT, Value: fmt.Sprintf("%d|0x%x", id, uint32(spinFlag))}, key, call.Args[0]}
					call.Fun = &ast.Ident{Name: "verifOnceDo"}
					return true
				}
				if tf.Pkg().Path() == "math/big" {
					rewriteBig(call, tf, fn)
					return true
				}
				if tf.Pkg().Path() != "sync/atomic" {
					return true
				}
				sig := tf.Type().(*types.Signature)
				np, nr := sig.Params().Len(), sig.Results().Len()
				name := fmt.Sprintf("verifAtom%d%d", np, nr)
				switch name {
				case "verifAtom01", "verifAtom10", "verifAtom11", "verifAtom20", "verifAtom21", "verifAtom31":
				default:
					return true
				}
				if strings.HasPrefix(tf.Name(), "CompareAndSwap") {
					// a failed CompareAndSwap is followed by a yield: the caller
					// retries or waits for somebody else
					name = fmt.Sprintf("verifCAS%d", np)
				}
				if len(call.Args) != np {
					return true
				}
				// interface-typed parameters (atomic.Value): name the type
				// arguments, inference would pick the argument's own type
				var fun ast.Expr = &ast.Ident{Name: name}
				anyParam := false
				for i := 0; i < np; i++ {
					if types.IsInterface(sig.Params().At(i).Type()) {
						anyParam = true
					}
				}
				if anyParam {
					var targs []ast.Expr
					for i := 0; i < np; i++ {
						if !types.IsInterface(sig.Params().At(i).Type()) {
							return true // mixed: leave the call alone
						}
						targs = append(targs, &ast.Ident{Name: "any"})
					}
					if len(targs) == 1 {
						fun = &ast.IndexExpr{X: fun, Index: targs[0]}
					} else {
						fun = &ast.IndexListExpr{X: fun, Indices: targs}
					}
				}
				p := fset.Position(call.Pos())
				rel, err := filepath.Rel(srcRoot, p.Filename)
				if err != nil {
					rel = filepath.Base(p.Filename)
				}
				id := len(sites)
				sites = append(sites, site{fmt.Sprintf("%s:%d", rel, p.Line), fn, "atomic " + tf.Name()})
				atomicSites++
				args := []ast.Expr{&ast.BasicLit{Kind: token.INT, Value: fmt.Sprintf("%d|0x%x", id, uint32(atomicFlag))}, call.Fun}
				args = append(args, call.Args...)
				call.Fun = fun
				call.Args = args
				return true
			})
		}
	}
}
