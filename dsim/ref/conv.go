package ref

import "math/big"

// RoundRat rounds an arbitrary rational into the format.
func RoundRat(r *big.Rat, mode int) Rounded {
	neg := r.Sign() < 0
	num := new(big.Int).Abs(r.Num())
	den := r.Denom()
	if num.Sign() == 0 {
		return Rounded{N: Num{Coef: new(big.Int)}}
	}
	k := 45 - (NumDigits(num) - NumDigits(den))
	var quo, rem *big.Int
	if k >= 0 {
		quo, rem = new(big.Int).QuoRem(new(big.Int).Mul(num, Pow10(k)), den, new(big.Int))
	} else {
		quo, rem = new(big.Int).QuoRem(num, new(big.Int).Mul(den, Pow10(-k)), new(big.Int))
	}
	return Round(neg, quo, int64(-k), rem.Sign() != 0, mode)
}

// IntTrunc returns the integer part of a finite n, truncated towards zero.
func IntTrunc(n Num) *big.Int {
	var i *big.Int
	if n.Exp >= 0 {
		i = new(big.Int).Mul(n.Coef, Pow10(n.Exp))
	} else if -n.Exp > 40 {
		i = new(big.Int) // Coef < 10^36
	} else {
		i = new(big.Int).Quo(n.Coef, Pow10(-n.Exp))
	}
	if n.Neg {
		i.Neg(i)
	}
	return i
}

// Representable reports whether (-1)^neg * c * 10^exp is a member of the
// format and returns it.
func Representable(neg bool, c *big.Int, exp int64) (Num, bool) {
	if c.Sign() == 0 {
		return Num{Neg: neg, Coef: new(big.Int)}, true
	}
	c = new(big.Int).Set(c)
	// strip trailing decimal zeros
	rem := new(big.Int)
	q := new(big.Int)
	for {
		q.QuoRem(c, bigTen, rem)
		if rem.Sign() != 0 {
			break
		}
		c.Set(q)
		exp++
	}
	if exp < MinExp {
		return Num{}, false
	}
	if exp > MaxExp {
		d := exp - MaxExp
		if d > 40 {
			return Num{}, false
		}
		c.Mul(c, Pow10(int(d)))
		exp = MaxExp
	}
	if c.Cmp(CMax) > 0 {
		return Num{}, false
	}
	return Num{Neg: neg, Coef: c, Exp: int(exp)}, true
}
