package ref

import (
	"fmt"
	"math"
	"math/big"
	"math/rand"
	"strconv"
	"testing"
)

// floatNum converts a float64 into an exact Num.
func floatNum(f float64) Num {
	neg := math.Signbit(f)
	f = math.Abs(f)
	if f == 0 {
		return Num{Neg: neg, Coef: new(big.Int)}
	}
	r, _ := new(big.Float).SetFloat64(f).Rat(nil)
	// denominator is a power of two: scale to a power of ten
	den := r.Denom()
	k := den.BitLen() - 1
	c := new(big.Int).Mul(r.Num(), new(big.Int).Exp(big.NewInt(5), big.NewInt(int64(k)), nil))
	return Num{Neg: neg, Coef: c, Exp: -k}
}

func TestLayoutAgainstFmt(t *testing.T) {
	rng := rand.New(rand.NewSource(1))
	verbs := []byte("eEfFgGv")
	vals := []float64{0, math.Copysign(0, -1), 1, -1, 0.5, 1.5, 2.5, 0.25, 0.125, 1e6, 1e5, 123456, 1234567, 1e-4, 1e-5, 0.0001220703125, 100, 1e20, 1e21, 1e22, 5, 15, 25, 0.05, 9.5, 99.5, 999999.5, 0.000005, 1 << 53, 12345678, 1e100, math.Inf(1), math.Inf(-1), math.NaN()}
	for i := 0; i < 300000; i++ {
		var v float64
		if i%3 == 0 {
			v = vals[rng.Intn(len(vals))]
		} else if i%3 == 1 {
			v = float64(rng.Intn(2000000)-1000000) / float64(int(1)<<uint(rng.Intn(12)))
		} else {
			v = math.Ldexp(float64(rng.Intn(1<<20)+1), rng.Intn(120)-60)
			if rng.Intn(2) == 0 {
				v = -v
			}
		}
		f := Flags{Plus: rng.Intn(4) == 0, Minus: rng.Intn(4) == 0, Sharp: rng.Intn(4) == 0, Space: rng.Intn(4) == 0, Zero: rng.Intn(3) == 0}
		if rng.Intn(2) == 0 {
			f.WidPresent = true
			f.Wid = rng.Intn(30)
		}
		if rng.Intn(3) != 0 {
			f.PrecPresent = true
			f.Prec = rng.Intn(25)
		}
		verb := verbs[rng.Intn(len(verbs))]
		if verb == 'v' && f.Sharp {
			continue // %#v is Go syntax, not modelled
		}
		var n Num
		switch {
		case math.IsNaN(v):
			n = Num{Class: NaN}
		case math.IsInf(v, 0):
			n = Num{Class: Inf, Neg: v < 0}
		default:
			n = floatNum(v)
		}
		if !f.PrecPresent && (verb == 'g' || verb == 'G' || verb == 'v') && n.Class == Finite {
			// strconv prints the shortest digits that round-trip, the
			// reference the exact digits: comparable only when they coincide
			sh := strconv.FormatFloat(math.Abs(v), 'e', -1, 64)
			ex := string(AppendNum(nil, Num{Coef: n.Coef, Exp: n.Exp}, 'e', -1))
			if sh != ex {
				continue
			}
		}
		want := fmt.Sprintf("%"+f.Spec(verb), v)
		got := FormatNum(n, f, verb)
		if got != want {
			t.Fatalf("%%%s of %v: ref %q fmt %q", f.Spec(verb), v, got, want)
		}
	}
}

func TestAppendNumAgainstStrconv(t *testing.T) {
	rng := rand.New(rand.NewSource(2))
	for i := 0; i < 200000; i++ {
		v := math.Float64frombits(rng.Uint64())
		if math.IsNaN(v) || math.IsInf(v, 0) {
			continue
		}
		if i%2 == 0 {
			v = float64(rng.Intn(100000)) / 64
		}
		// shortest-exact digits of a float64 are not strconv's "shortest
		// round-trip" digits, so only explicit precisions are compared
		verb := "efgEG"[rng.Intn(5)]
		prec := rng.Intn(30)
		want := strconv.FormatFloat(v, verb, prec, 64)
		got := string(AppendNum(nil, floatNum(v), verb, prec))
		if got != want {
			t.Fatalf("%c prec %d of %v: ref %q strconv %q", verb, prec, v, got, want)
		}
	}
}

func TestEncodeDecode(t *testing.T) {
	rng := rand.New(rand.NewSource(3))
	for i := 0; i < 100000; i++ {
		hi, lo := rng.Uint64(), rng.Uint64()
		n := Decode(hi, lo)
		if n.Class != Finite {
			continue
		}
		if n.Coef.Cmp(CMax) > 0 {
			t.Fatalf("decode %x %x: coefficient above CMax", hi, lo)
		}
		h2, l2, ok := Encode(n)
		if !ok || h2 != hi || l2 != lo {
			t.Fatalf("roundtrip %x %x -> %x %x %v", hi, lo, h2, l2, ok)
		}
	}
	one := Decode(0x3040000000000000, 1)
	if one.Coef.Int64() != 1 || one.Exp != 0 || one.Neg {
		t.Fatalf("one decodes as %v", one)
	}
}

func TestRound(t *testing.T) {
	c := new(big.Int).Add(CMax, big.NewInt(1))
	r := Round(false, c, 0, false, ToNearestEven)
	if r.N.Exp != 1 || r.Inexact {
		t.Fatalf("CMax+1 -> %v", r.N)
	}
	r = Round(false, new(big.Int).Mul(CMax, big.NewInt(10)), MaxExp, false, ToNearestEven)
	if !r.Overflow || r.N.Class != Inf {
		t.Fatalf("overflow -> %v", r.N)
	}
	r = Round(true, big.NewInt(5), MinExp-1, false, ToNearestEven)
	if !r.N.IsZero() || !r.N.Neg {
		t.Fatalf("tie at min -> %v", r.N)
	}
	r = Round(true, big.NewInt(15), MinExp-1, false, ToNearestEven)
	if r.N.Coef.Int64() != 2 {
		t.Fatalf("1.5 min -> %v", r.N)
	}
	r = Round(false, big.NewInt(1), -1<<40, false, AwayFromZero)
	if r.N.Coef.Int64() != 1 || r.N.Exp != MinExp {
		t.Fatalf("tiny away -> %v", r.N)
	}
}

func TestLiteral(t *testing.T) {
	valid := []string{"1", "-1", "+1", "1_000", "1.5", "1e5", "1E+5", "1e-5", "1_0.0_1e1_0", "NaN", "nan", "Inf", "-inf", "+Infinity", "iNfInItY", "00012", "0.000"}
	invalid := []string{"", "+", "-", ".", "-.", "+.", "1_", "_1", "1__0", "1_.5", "1._5", "1_e5", "1e", "1e+", "1e_5", "1e5_", "--1", "1..2", "1.2.3", "e5", "0x10", "1e5e5", "infinit", "nan1", " 1", "1 ", "١"}
	opt := []string{"1.", ".5", "-.5e3", "+NaN", "-nan"}
	for _, s := range valid {
		if l := ParseLiteral(s, LitOpts{}); l.Status != LitValid {
			t.Errorf("%q should be valid, got %d", s, l.Status)
		}
	}
	for _, s := range invalid {
		if l := ParseLiteral(s, LitOpts{}); l.Status != LitInvalid {
			t.Errorf("%q should be invalid, got %d", s, l.Status)
		}
	}
	for _, s := range opt {
		if l := ParseLiteral(s, LitOpts{}); l.Status != LitOptional {
			t.Errorf("%q should be optional, got %d", s, l.Status)
		}
	}
	l := ParseLiteral("1_0.0_1e1_0", LitOpts{})
	if l.Coef.Int64() != 1001 || l.Exp != 8 {
		t.Errorf("value %v e%d", l.Coef, l.Exp)
	}
}
