package ref

import (
	"math/big"
	"strconv"
	"strings"
)

// dec is a decimal digit string 0.d1d2..dn * 10^dp without trailing zeros
// (nd == 0 for zero), mirroring what strconv hands to its layout routines.
type dec struct {
	d  []byte
	dp int
}

func decOf(n Num) dec {
	if n.Coef.Sign() == 0 {
		return dec{}
	}
	s := n.Coef.String()
	t := strings.TrimRight(s, "0")
	return dec{d: []byte(t), dp: len(s) + n.Exp}
}

// round rounds to nd digits, half to even on the exact digit string.
func (a *dec) round(nd int) {
	if nd < 0 || nd >= len(a.d) {
		if nd < 0 {
			// everything is dropped and the value is below half a unit
			a.d = nil
			a.dp = 0
		}
		return
	}
	up := false
	if a.d[nd] == '5' && nd+1 == len(a.d) {
		up = nd > 0 && (a.d[nd-1]-'0')%2 != 0
	} else {
		up = a.d[nd] >= '5'
	}
	if up {
		i := nd - 1
		for i >= 0 && a.d[i] == '9' {
			i--
		}
		if i < 0 {
			a.d = []byte{'1'}
			a.dp++
			return
		}
		a.d[i]++
		a.d = a.d[:i+1]
		return
	}
	a.d = a.d[:nd]
	for len(a.d) > 0 && a.d[len(a.d)-1] == '0' {
		a.d = a.d[:len(a.d)-1]
	}
	if len(a.d) == 0 {
		a.dp = 0
	}
}

func fmtE(dst []byte, neg bool, d dec, prec int, e byte) []byte {
	if neg {
		dst = append(dst, '-')
	}
	ch := byte('0')
	if len(d.d) != 0 {
		ch = d.d[0]
	}
	dst = append(dst, ch)
	if prec > 0 {
		dst = append(dst, '.')
		i := 1
		m := len(d.d)
		if prec+1 < m {
			m = prec + 1
		}
		if i < m {
			dst = append(dst, d.d[i:m]...)
			i = m
		}
		for ; i <= prec; i++ {
			dst = append(dst, '0')
		}
	}
	dst = append(dst, e)
	exp := d.dp - 1
	if len(d.d) == 0 {
		exp = 0
	}
	if exp < 0 {
		dst = append(dst, '-')
		exp = -exp
	} else {
		dst = append(dst, '+')
	}
	if exp < 10 {
		dst = append(dst, '0')
	}
	return strconv.AppendInt(dst, int64(exp), 10)
}

func fmtF(dst []byte, neg bool, d dec, prec int) []byte {
	if neg {
		dst = append(dst, '-')
	}
	if d.dp > 0 {
		m := len(d.d)
		if d.dp < m {
			m = d.dp
		}
		dst = append(dst, d.d[:m]...)
		for ; m < d.dp; m++ {
			dst = append(dst, '0')
		}
	} else {
		dst = append(dst, '0')
	}
	if prec > 0 {
		dst = append(dst, '.')
		for i := 0; i < prec; i++ {
			ch := byte('0')
			if j := d.dp + i; 0 <= j && j < len(d.d) {
				ch = d.d[j]
			}
			dst = append(dst, ch)
		}
	}
	return dst
}

// AppendNum is the reference for strconv.AppendFloat applied to the exact
// value of a finite n: verb one of e,E,f,g,G; prec -1 for the shortest exact
// digit string.
func AppendNum(dst []byte, n Num, verb byte, prec int) []byte {
	d := decOf(n)
	shortest := prec < 0
	if shortest {
		switch verb {
		case 'e', 'E':
			prec = len(d.d) - 1
		case 'f':
			prec = len(d.d) - d.dp
			if prec < 0 {
				prec = 0
			}
		case 'g', 'G':
			prec = len(d.d)
		}
	} else {
		switch verb {
		case 'e', 'E':
			d.round(prec + 1)
		case 'f':
			d.round(d.dp + prec)
		case 'g', 'G':
			if prec == 0 {
				prec = 1
			}
			d.round(prec)
		}
	}
	switch verb {
	case 'e', 'E':
		if prec < 0 {
			prec = 0
		}
		return fmtE(dst, n.Neg, d, prec, verb)
	case 'f':
		return fmtF(dst, n.Neg, d, prec)
	case 'g', 'G':
		eprec := prec
		if eprec > len(d.d) && len(d.d) >= d.dp {
			eprec = len(d.d)
		}
		if shortest {
			eprec = 6
		}
		exp := d.dp - 1
		if len(d.d) == 0 {
			// strconv: zero has dp == 0, so exp == -1 and the positional form is used
			exp = -1
		}
		if exp < -4 || exp >= eprec {
			if prec > len(d.d) {
				prec = len(d.d)
			}
			p := prec - 1
			if p < 0 {
				p = 0
			}
			return fmtE(dst, n.Neg, d, p, verb+'e'-'g')
		}
		if prec > d.dp {
			prec = len(d.d)
		}
		p := prec - d.dp
		if p < 0 {
			p = 0
		}
		return fmtF(dst, n.Neg, d, p)
	}
	return append(dst, '%', verb)
}

// Flags of a formatting directive.
type Flags struct {
	Plus, Minus, Sharp, Space, Zero bool
	Wid, Prec                       int
	WidPresent, PrecPresent         bool
}

// Spec renders the directive without the leading '%', e.g. "+08.3f".
func (f Flags) Spec(verb byte) string {
	var b strings.Builder
	if f.Plus {
		b.WriteByte('+')
	}
	if f.Minus {
		b.WriteByte('-')
	}
	if f.Sharp {
		b.WriteByte('#')
	}
	if f.Space {
		b.WriteByte(' ')
	}
	if f.Zero {
		b.WriteByte('0')
	}
	if f.WidPresent {
		b.WriteString(strconv.Itoa(f.Wid))
	}
	if f.PrecPresent {
		b.WriteByte('.')
		b.WriteString(strconv.Itoa(f.Prec))
	}
	b.WriteByte(verb)
	return b.String()
}

// FormatNum is the reference for fmt.Sprintf("%"+spec, x) where x is a
// float64 holding exactly the value n: the rules of package fmt (fmtFloat,
// pad) applied to the reference digit string. verb is one of e,E,f,F,g,G,v.
func FormatNum(n Num, f Flags, verb byte) string {
	prec := -1
	switch verb {
	case 'v':
		// package fmt turns the plus flag of %+v into "plusV", which does not
		// ask for a sign; %#v (Go syntax) is not modelled
		verb = 'g'
		f.Plus = false
	case 'e', 'E', 'f', 'F':
		prec = 6
		if verb == 'F' {
			verb = 'f'
		}
	}
	if f.PrecPresent {
		prec = f.Prec
	}
	var num []byte
	switch n.Class {
	case NaN:
		num = []byte("+NaN")
	case Inf:
		if n.Neg {
			num = []byte("-Inf")
		} else {
			num = []byte("+Inf")
		}
	default:
		num = AppendNum([]byte{'+'}, n, verb, prec)
		if num[1] == '-' || num[1] == '+' {
			num = num[1:]
		}
	}
	if f.Space && num[0] == '+' && !f.Plus {
		num[0] = ' '
	}
	if num[1] == 'I' || num[1] == 'N' {
		if num[1] == 'N' && !f.Space && !f.Plus {
			num = num[1:]
		}
		ff := f
		ff.Zero = false
		return pad(ff, num)
	}
	if f.Sharp {
		digits := 0
		switch verb {
		case 'v', 'g', 'G':
			digits = prec
			if digits == -1 {
				digits = 6
			}
		}
		var tail []byte
		hasDecimalPoint := false
		sawNonzeroDigit := false
	loop:
		for i := 1; i < len(num); i++ {
			switch num[i] {
			case '.':
				hasDecimalPoint = true
			case 'e', 'E':
				tail = append(tail, num[i:]...)
				num = num[:i]
				break loop
			default:
				if num[i] != '0' {
					sawNonzeroDigit = true
				}
				if sawNonzeroDigit {
					digits--
				}
			}
		}
		if !hasDecimalPoint {
			if len(num) == 2 && num[1] == '0' {
				digits--
			}
			num = append(num, '.')
		}
		for digits > 0 {
			num = append(num, '0')
			digits--
		}
		num = append(num, tail...)
	}
	if f.Plus || num[0] != '+' {
		if f.Zero && !f.Minus && f.WidPresent && f.Wid > len(num) {
			var b strings.Builder
			b.WriteByte(num[0])
			for i := 0; i < f.Wid-len(num); i++ {
				b.WriteByte('0')
			}
			b.Write(num[1:])
			return b.String()
		}
		return pad(f, num)
	}
	return pad(f, num[1:])
}

func pad(f Flags, b []byte) string {
	if !f.WidPresent || f.Wid == 0 {
		return string(b)
	}
	width := f.Wid - len(b)
	if width <= 0 {
		return string(b)
	}
	if !f.Minus {
		c := " "
		if f.Zero {
			c = "0"
		}
		return strings.Repeat(c, width) + string(b)
	}
	return string(b) + strings.Repeat(" ", width)
}

// Shortest returns the shortest exact numeral of a finite n in the %v layout
// (positional when the exponent of the leading digit is in -4..5, otherwise
// d.ddde+XX with at least two exponent digits), and "NaN", "+Inf", "-Inf".
func Shortest(n Num) string {
	switch n.Class {
	case NaN:
		return "NaN"
	case Inf:
		if n.Neg {
			return "-Inf"
		}
		return "+Inf"
	}
	return string(AppendNum(nil, n, 'g', -1))
}

// ParseNumeral decodes a plain numeral produced by a formatter
// ([-+ ]digits[.digits][(e|E)[+-]digits]) into an exact Num; ok is false if
// the text is not of that shape.
func ParseNumeral(s string) (Num, bool) {
	n := Num{}
	i := 0
	if i < len(s) && (s[i] == '-' || s[i] == '+') {
		n.Neg = s[i] == '-'
		i++
	}
	start := i
	for i < len(s) && s[i] >= '0' && s[i] <= '9' {
		i++
	}
	intPart := s[start:i]
	frac := ""
	if i < len(s) && s[i] == '.' {
		i++
		st := i
		for i < len(s) && s[i] >= '0' && s[i] <= '9' {
			i++
		}
		frac = s[st:i]
	}
	if intPart == "" && frac == "" {
		return n, false
	}
	exp := 0
	if i < len(s) && (s[i] == 'e' || s[i] == 'E') {
		i++
		eneg := false
		if i < len(s) && (s[i] == '-' || s[i] == '+') {
			eneg = s[i] == '-'
			i++
		}
		st := i
		for i < len(s) && s[i] >= '0' && s[i] <= '9' {
			i++
		}
		if st == i || i-st > 9 {
			return n, false
		}
		exp, _ = strconv.Atoi(s[st:i])
		if eneg {
			exp = -exp
		}
	}
	if i != len(s) {
		return n, false
	}
	c, ok := new(big.Int).SetString(intPart+frac, 10)
	if !ok {
		return n, false
	}
	n.Coef = c
	n.Exp = exp - len(frac)
	return n, true
}
