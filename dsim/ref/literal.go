package ref

import (
	"math/big"
	"strings"
)

// Literal classification.
const (
	LitInvalid  = iota // not in the documented syntax: must be rejected
	LitValid           // in the documented syntax: must be accepted with the right value
	LitOptional        // the documentation does not decide (e.g. "1.", ".5", "+NaN"): if accepted, the value must be right
)

// Literal is the reference reading of a string as a decimal literal.
type Literal struct {
	Status int
	Class  int // Finite, Inf, NaN
	Neg    bool
	// Finite: value = Coef [+eps if Sticky] * 10^Exp (Coef holds at most
	// keepDigits significant digits of the written digit string).
	Coef   *big.Int
	Exp    int64
	Sticky bool
}

const keepDigits = 90

// Options for ParseLiteral.
type LitOpts struct {
	// NoUnderscore: '_' is not part of the syntax (JSON numbers).
	NoUnderscore bool
	// NoSpecial: NaN/Inf/Infinity are not part of the syntax.
	NoSpecial bool
	// NoLongInf: the 8-letter form "Infinity" is not part of the syntax (Scan).
	NoLongInf bool
}

// ParseLiteral reads s according to the documented literal syntax:
//
//	[+-] ( digits [ '.' [digits] ] | '.' digits ) [ (e|E) [+-] digits ]
//	[+-] ( "nan" | "inf" | "infinity" )       (any case)
//
// where digits may contain single '_' characters strictly between two digits.
func ParseLiteral(s string, o LitOpts) Literal {
	lit := Literal{Status: LitInvalid}
	i := 0
	signed := false
	if i < len(s) && (s[i] == '+' || s[i] == '-') {
		lit.Neg = s[i] == '-'
		signed = true
		i++
	}
	rest := s[i:]
	if !o.NoSpecial {
		switch strings.ToLower(rest) {
		case "nan":
			if len(rest) == 3 {
				lit.Class = NaN
				lit.Status = LitValid
				if signed {
					lit.Status = LitOptional
				}
				return lit
			}
		case "inf":
			if len(rest) == 3 {
				lit.Class = Inf
				lit.Status = LitValid
				return lit
			}
		case "infinity":
			if len(rest) == 8 && !o.NoLongInf {
				lit.Class = Inf
				lit.Status = LitValid
				return lit
			}
		}
	}
	// mantissa
	status := LitValid
	intDigits, n, ok := scanDigits(rest, 0, o.NoUnderscore)
	if !ok {
		return lit
	}
	j := n
	fracDigits := ""
	sawDot := false
	if j < len(rest) && rest[j] == '.' {
		sawDot = true
		j++
		var m int
		fracDigits, m, ok = scanDigits(rest, j, o.NoUnderscore)
		if !ok {
			return lit
		}
		j = m
	}
	if intDigits == "" && fracDigits == "" {
		return lit
	}
	if sawDot && (intDigits == "" || fracDigits == "") {
		status = LitOptional // ".5" and "1." are not spelled out by the documentation
	}
	var exp int64
	if j < len(rest) && (rest[j] == 'e' || rest[j] == 'E') {
		j++
		eneg := false
		if j < len(rest) && (rest[j] == '+' || rest[j] == '-') {
			eneg = rest[j] == '-'
			j++
		}
		ed, m, ok := scanDigits(rest, j, o.NoUnderscore)
		if !ok || ed == "" {
			return lit
		}
		j = m
		ed = strings.TrimLeft(ed, "0")
		if len(ed) > 17 {
			exp = 1 << 60
		} else {
			for k := 0; k < len(ed); k++ {
				exp = exp*10 + int64(ed[k]-'0')
			}
		}
		if eneg {
			exp = -exp
		}
	}
	if j != len(rest) {
		return lit
	}
	lit.Status = status
	lit.Class = Finite
	all := intDigits + fracDigits
	exp -= int64(len(fracDigits))
	sig := strings.TrimLeft(all, "0")
	if sig == "" {
		lit.Coef = new(big.Int)
		lit.Exp = exp
		return lit
	}
	if len(sig) > keepDigits {
		tail := sig[keepDigits:]
		exp += int64(len(tail))
		if strings.Trim(tail, "0") != "" {
			lit.Sticky = true
		}
		sig = sig[:keepDigits]
	}
	lit.Coef, _ = new(big.Int).SetString(sig, 10)
	lit.Exp = exp
	return lit
}

// scanDigits reads digits with optional single underscores strictly between
// digits starting at s[i]; it returns the digits (underscores removed), the
// index after them and ok=false if an underscore is misplaced.
func scanDigits(s string, i int, noUnderscore bool) (string, int, bool) {
	var b strings.Builder
	start := i
	for i < len(s) {
		c := s[i]
		if c >= '0' && c <= '9' {
			b.WriteByte(c)
			i++
			continue
		}
		if c == '_' {
			if noUnderscore {
				return "", i, false
			}
			// must have a digit before and after
			if i == start || s[i-1] == '_' || i+1 >= len(s) || s[i+1] < '0' || s[i+1] > '9' {
				return "", i, false
			}
			i++
			continue
		}
		break
	}
	return b.String(), i, true
}

// Value rounds a finite literal into the format.
func (l Literal) Value(mode int) Rounded {
	switch l.Class {
	case NaN:
		return Rounded{N: Num{Class: NaN}}
	case Inf:
		return Rounded{N: Num{Class: Inf, Neg: l.Neg}}
	}
	return Round(l.Neg, l.Coef, l.Exp, l.Sticky, mode)
}
