package ref

import "math/big"

// Rounded is the outcome of rounding an exact value into the format.
type Rounded struct {
	N Num
	// Overflow: the value rounded with an unbounded exponent range exceeds
	// the largest finite member. N is then what IEEE 754 prescribes for the
	// mode (an infinity, or the largest finite member for modes directed
	// towards zero on that side).
	Overflow bool
	// Inexact: N differs from the exact value.
	Inexact bool
	// Underflow: the exact value is non-zero and lies below 10^MinExp * 1
	// in magnitude or was rounded at the minimum exponent inexactly.
	Underflow bool
}

// MaxFinite returns the largest finite member with the given sign.
func MaxFinite(neg bool) Num {
	return Num{Neg: neg, Coef: new(big.Int).Set(CMax), Exp: MaxExp}
}

// Round rounds (-1)^neg * (coef [+ epsilon if sticky]) * 10^exp, coef >= 0,
// into the format under the given mode. exp may be any int64.
func Round(neg bool, coef *big.Int, exp int64, sticky bool, mode int) Rounded {
	if coef.Sign() < 0 {
		panic("ref.Round: negative coefficient")
	}
	if coef.Sign() == 0 && !sticky {
		e := exp
		if e < MinExp {
			e = MinExp
		}
		if e > MaxExp {
			e = MaxExp
		}
		return Rounded{N: Num{Neg: neg, Coef: new(big.Int), Exp: int(e)}}
	}
	nd := int64(NumDigits(coef))
	if coef.Sign() == 0 {
		nd = 1 // value is epsilon * 10^exp
	}
	adj := exp + nd - 1 // exponent of the leading digit
	if adj > MaxExp+40 {
		return overflow(neg, mode)
	}
	// smallest q with floor(v / 10^q) <= CMax: try adj-34 (35 digits), else adj-33
	q := adj - 34
	if q < MinExp {
		q = MinExp
	}
	for {
		if q > MaxExp {
			return overflow(neg, mode)
		}
		quo, cmpHalf, exact := divPow10(coef, exp, q, sticky, nd)
		if quo.Cmp(CMax) > 0 {
			q++
			continue
		}
		up := false
		switch mode {
		case ToNearestEven:
			up = cmpHalf > 0 || (cmpHalf == 0 && quo.Bit(0) == 1)
		case ToNearestAway:
			up = cmpHalf >= 0
		case ToZero:
		case AwayFromZero:
			up = !exact
		case ToNegativeInf:
			up = !exact && neg
		case ToPositiveInf:
			up = !exact && !neg
		default:
			up = cmpHalf > 0 || (cmpHalf == 0 && quo.Bit(0) == 1)
		}
		if up {
			quo = new(big.Int).Add(quo, bigOne)
			if quo.Cmp(CMax) > 0 {
				q++
				continue
			}
		}
		r := Rounded{N: Num{Neg: neg, Coef: quo, Exp: int(q)}, Inexact: !exact}
		if !exact && q == MinExp {
			r.Underflow = true
		}
		return r
	}
}

func overflow(neg bool, mode int) Rounded {
	r := Rounded{Overflow: true, Inexact: true}
	toInf := true
	switch mode {
	case ToZero:
		toInf = false
	case ToNegativeInf:
		toInf = neg
	case ToPositiveInf:
		toInf = !neg
	}
	if toInf {
		r.N = Num{Class: Inf, Neg: neg}
	} else {
		r.N = MaxFinite(neg)
	}
	return r
}

// divPow10 computes floor(v / 10^q) for v = (coef [+eps]) * 10^exp together
// with the comparison of the remainder against one half of 10^q
// (-1 below, 0 equal, +1 above) and whether the division was exact.
func divPow10(coef *big.Int, exp, q int64, sticky bool, nd int64) (quo *big.Int, cmpHalf int, exact bool) {
	if q <= exp {
		d := exp - q
		quo = new(big.Int).Mul(coef, Pow10(int(d)))
		if sticky {
			// epsilon * 10^exp is below 10^exp, hence below half of 10^q only
			// if q == exp is not guaranteed; epsilon is "infinitesimal" by
			// contract (0 < eps < 1 at the last written digit), and callers
			// keep enough digits that this is never consulted near a tie.
			return quo, -1, false
		}
		return quo, -1, true
	}
	d := q - exp
	if d > nd+1 {
		// v < 10^(exp+nd) <= 10^(q-2): far below half a quantum
		return new(big.Int), -1, false
	}
	p := Pow10(int(d))
	quo, rem := new(big.Int).QuoRem(coef, p, new(big.Int))
	if rem.Sign() == 0 && !sticky {
		return quo, -1, true
	}
	half := new(big.Int).Rsh(p, 1)
	c := rem.Cmp(half)
	if c == 0 && sticky {
		c = 1
	}
	return quo, c, false
}
