// Package ref holds small executable reference models for the decimal128
// format, written against math/big only. It shares no code and no constants
// with the library under test beyond the published parameters of the format:
// coefficients 0 .. 5*2^111-1, exponents -6176 .. 6111, IEEE 754-2008 BID
// field layout.
package ref

import (
	"math/big"
	"strings"
)

// Class of a Num.
const (
	Finite = iota
	Inf
	NaN
)

// Rounding modes in the order the library declares them.
const (
	ToNearestEven = iota
	ToNearestAway
	ToZero
	AwayFromZero
	ToNegativeInf
	ToPositiveInf
)

const (
	MinExp = -6176
	MaxExp = 6111
)

// CMax is the largest coefficient of the format, 5*2^111 - 1.
var CMax = func() *big.Int {
	c := new(big.Int).Lsh(big.NewInt(5), 111)
	return c.Sub(c, big.NewInt(1))
}()

var (
	bigTen  = big.NewInt(10)
	bigOne  = big.NewInt(1)
	bigZero = big.NewInt(0)
)

// Num is a decoded decimal: (-1)^Neg * Coef * 10^Exp, or an infinity or NaN.
type Num struct {
	Class int
	Neg   bool
	Coef  *big.Int
	Exp   int
	// Payload holds the low 64 bits of a NaN.
	Payload uint64
}

// IsZero reports whether n is a (signed) zero.
func (n Num) IsZero() bool { return n.Class == Finite && n.Coef.Sign() == 0 }

// Rat returns the exact value of a finite n.
func (n Num) Rat() *big.Rat {
	r := new(big.Rat).SetInt(n.Coef)
	if n.Exp > 0 {
		r.Mul(r, new(big.Rat).SetInt(Pow10(n.Exp)))
	} else if n.Exp < 0 {
		r.Quo(r, new(big.Rat).SetInt(Pow10(-n.Exp)))
	}
	if n.Neg {
		r.Neg(r)
	}
	return r
}

// SameValue reports whether a and b denote the same value with the same sign
// (any NaN matches any NaN).
func SameValue(a, b Num) bool {
	if a.Class != b.Class {
		return false
	}
	switch a.Class {
	case NaN:
		return true
	case Inf:
		return a.Neg == b.Neg
	}
	if a.Neg != b.Neg {
		return false
	}
	if a.Coef.Sign() == 0 || b.Coef.Sign() == 0 {
		return a.Coef.Sign() == b.Coef.Sign()
	}
	// compare coef*10^exp without building huge powers needlessly
	ea, eb := a.Exp, b.Exp
	ca, cb := a.Coef, b.Coef
	if ea > eb {
		ca = new(big.Int).Mul(ca, Pow10(ea-eb))
	} else if eb > ea {
		cb = new(big.Int).Mul(cb, Pow10(eb-ea))
	}
	return ca.Cmp(cb) == 0
}

func (n Num) String() string {
	switch n.Class {
	case NaN:
		return "NaN"
	case Inf:
		if n.Neg {
			return "-Inf"
		}
		return "+Inf"
	}
	s := ""
	if n.Neg {
		s = "-"
	}
	return s + n.Coef.String() + "e" + itoa(n.Exp)
}

func itoa(i int) string {
	return big.NewInt(int64(i)).String()
}

var pow10Cache [128]*big.Int

// Pow10 returns 10^n for n >= 0.
func Pow10(n int) *big.Int {
	if n < 0 {
		panic("ref.Pow10: negative")
	}
	if n < len(pow10Cache) {
		if p := pow10Cache[n]; p != nil {
			return p
		}
		p := new(big.Int).Exp(bigTen, big.NewInt(int64(n)), nil)
		pow10Cache[n] = p
		return p
	}
	return new(big.Int).Exp(bigTen, big.NewInt(int64(n)), nil)
}

func init() {
	for i := range pow10Cache {
		pow10Cache[i] = new(big.Int).Exp(bigTen, big.NewInt(int64(i)), nil)
	}
}

// NumDigits returns the number of decimal digits of c > 0 (0 for c == 0).
func NumDigits(c *big.Int) int {
	if c.Sign() == 0 {
		return 0
	}
	// estimate from bit length, then correct
	bl := c.BitLen()
	est := int(float64(bl-1)*0.30102999566398120) + 1
	if est < 1 {
		est = 1
	}
	// 10^(est-1) <= c < 10^est ?
	for c.CmpAbs(Pow10(est)) >= 0 {
		est++
	}
	for est > 1 && c.CmpAbs(Pow10(est-1)) < 0 {
		est--
	}
	return est
}

// Decode decodes the two 64-bit halves of a BID decimal128.
func Decode(hi, lo uint64) Num {
	n := Num{Neg: hi>>63 == 1}
	comb := hi >> 58 & 0x1f // G0..G4
	if comb>>1 == 0xf {
		if comb&1 == 1 {
			n.Class = NaN
			n.Payload = lo
		} else {
			n.Class = Inf
		}
		return n
	}
	var chi uint64
	if hi>>61&3 == 3 {
		n.Exp = int(hi>>47&0x3fff) - 6176
		chi = hi&0x7fffffffffff | 1<<49
	} else {
		n.Exp = int(hi>>49&0x3fff) - 6176
		chi = hi & 0x1ffffffffffff
	}
	c := new(big.Int).SetUint64(chi)
	c.Lsh(c, 64)
	c.Or(c, new(big.Int).SetUint64(lo))
	n.Coef = c
	return n
}

// Encode encodes a finite n (Coef <= CMax, MinExp <= Exp <= MaxExp), an
// infinity or a NaN. ok is false if n is not a member of the format.
func Encode(n Num) (hi, lo uint64, ok bool) {
	var sign uint64
	if n.Neg {
		sign = 1 << 63
	}
	switch n.Class {
	case Inf:
		return sign | 0x78<<56, 0, true
	case NaN:
		return sign | 0x7c<<56, n.Payload, true
	}
	if n.Coef.Sign() < 0 || n.Coef.Cmp(CMax) > 0 || n.Exp < MinExp || n.Exp > MaxExp {
		return 0, 0, false
	}
	lo = new(big.Int).And(n.Coef, new(big.Int).SetUint64(^uint64(0))).Uint64()
	chi := new(big.Int).Rsh(n.Coef, 64).Uint64()
	be := uint64(n.Exp + 6176)
	if chi>>49 != 0 {
		hi = sign | 3<<61 | be<<47 | chi&0x7fffffffffff
	} else {
		hi = sign | be<<49 | chi
	}
	return hi, lo, true
}

// DigitsOf returns the decimal digits of c without trailing zeros and the
// number of zeros removed ("" and 0 for c == 0).
func DigitsOf(c *big.Int) (string, int) {
	if c.Sign() == 0 {
		return "", 0
	}
	s := c.String()
	t := strings.TrimRight(s, "0")
	return t, len(s) - len(t)
}
