package sim

import (
	"fmt"
	"hash/fnv"
	"reflect"
	"sort"
	"strings"
	"unsafe"

	"github.com/woodsbury/decimal128"
)

// Violation classes.
const (
	VNondet      = "nondeterministic-result" // concurrent result differs from the sequential one
	VPanic       = "undocumented-panic"
	VBudget      = "step-budget-exceeded"
	VInput       = "input-modified"
	VShared      = "shared-state-modified"
	VUnstable    = "result-unstable"
	VWrong       = "wrong-result" // reference-model oracle
	VRace        = "data-race"    // reported by the driver from the race build
	VLiveness    = "no-progress"
	VHistory     = "history-dependent-result" // an epoch's results depend on which epochs ran before it (fresh processes)
	VHarnessFail = "harness"
)

// Violation is one failed oracle.
type Violation struct {
	Property string `json:"property"`
	Class    string `json:"class"`
	Op       string `json:"op"`
	Detail   string `json:"detail"`
	Epoch    int    `json:"epoch"`
	Task     int    `json:"task"`
	Index    int    `json:"index"`
}

// Sig is the signature used to match violations across minimisation steps
// and against known findings.
func (v Violation) Sig() string { return v.Property + "/" + v.Class + "/" + v.Op }

// Options control one execution of a Program.
type Options struct {
	Budget   uint64
	Sites    int
	Trace    bool
	Property string // property the profile's reference checks belong to
	Checks   bool   // run reference-model checks
	// RefOnly: only the sequential pass.
	RefOnly bool
	// Reverse: after the scheduled pass, re-execute every history-free
	// operation alone, in reverse order, on fresh objects; the result must not
	// depend on what was called before (purity).
	Reverse bool
	// Permute: execute the epochs in reverse order (results are still
	// reported under the epoch's own index).
	Permute bool
	// KeepKeys: keep the result key of every operation in Outcome.EpochOpKeys.
	KeepKeys bool
	// Plan, if set, is called after the sequential pass of every epoch with
	// the statement counts of its operations, and fills in the schedule.
	Plan func(ei int, steps [][]uint64)
}

// OpStat is the per-operation outcome kept for evidence and calibration.
type OpStat struct {
	Kind  string
	Steps uint64
	Key   string
}

// Outcome is everything one execution produced.
type Outcome struct {
	Violations  []Violation
	Hash        uint64 // hash of the complete event and result log
	Steps       uint64
	Switches    uint64
	Preempts    uint64
	SyncPre     uint64 // pre-emptions placed at a synchronisation event (lock acquisition, atomic operation)
	FairYields  uint64
	SharedIn    int // byte-string inputs shared read-only between tasks
	Ops         int
	Reused      int // operations that ran on a reused caller-owned object
	Faults      map[string]int
	FaultKinds  []string
	SchedHash   uint64
	Overlaps    []Overlap
	SiteHits    []uint32
	OpSteps     [][][]uint64 // [epoch][task][op] statement counts of the sequential pass
	EpochKeys   []uint64     // per epoch (own index): digest of all results of the scheduled pass
	EpochOpKeys [][]string   // per epoch: "task.op kind key" lines (only with KeepKeys)
	Trace       []string
	Deadlock    bool
	MaxOpSteps  uint64
	BigCalls    uint64 // math/big calls charged to the logical clock
	BigCost     uint64 // steps charged for them
}

type sharedVar struct {
	name string
	ptr  unsafe.Pointer
	size uintptr
	// slice-of-bytes variables are hashed through their current header
	bytesPtr *[]byte
}

var (
	sharedVars []sharedVar
	modePtr    *decimal128.RoundingMode
	// staticRanges: the memory of the library's package-level variables.
	staticRanges []memSpan
	// InternalTableWrites counts changes of the library's own tables that no
	// client write explains (reported in the evidence, not a verdict).
	InternalTableWrites int
)

func flatType(t reflect.Type) bool {
	switch t.Kind() {
	case reflect.Bool, reflect.Int, reflect.Int8, reflect.Int16, reflect.Int32, reflect.Int64,
		reflect.Uint, reflect.Uint8, reflect.Uint16, reflect.Uint32, reflect.Uint64, reflect.Uintptr,
		reflect.Float32, reflect.Float64, reflect.Complex64, reflect.Complex128:
		return true
	case reflect.Array:
		return flatType(t.Elem())
	case reflect.Struct:
		for i := 0; i < t.NumField(); i++ {
			if !flatType(t.Field(i).Type) {
				return false
			}
		}
		return true
	}
	return false
}

// pinnedShared lists the package-level storage of the pinned tree that is
// read-only by design (DESIGN.md section 1). Only these names are covered by
// the immutability snapshot; new state introduced by a change is judged by
// the race detector and by sequential equivalence, not by its existence.
var pinnedShared = map[string]bool{
	"digitPairs": true, "dinf": true, "e": true, "invLn10": true, "invLn2": true, "ln": true,
	"ln10": true, "ln2": true, "nanText": true, "negInfText": true, "padInfText": true,
	"padNaNText": true, "phi": true, "pi": true, "posInfText": true, "posNaNText": true,
	"spaceText": true, "uint128PowersOf10": true, "uint192PowersOf10": true,
}

// InitShared locates the library's package-level variables.
func InitShared() {
	names, ptrs := decimal128.VerifShared()
	for i := range names {
		if v := reflect.ValueOf(ptrs[i]); v.Kind() == reflect.Pointer && !v.IsNil() {
			lo := v.Pointer()
			staticRanges = append(staticRanges, memSpan{lo, lo + v.Type().Elem().Size()})
		}
	}
	for i, n := range names {
		if n == "DefaultRoundingMode" {
			if p, ok := ptrs[i].(*decimal128.RoundingMode); ok {
				modePtr = p
			}
			continue
		}
		if !pinnedShared[n] {
			continue
		}
		v := reflect.ValueOf(ptrs[i])
		if v.Kind() != reflect.Pointer {
			continue
		}
		t := v.Type().Elem()
		if bp, ok := ptrs[i].(*[]byte); ok {
			sharedVars = append(sharedVars, sharedVar{name: n, bytesPtr: bp})
			continue
		}
		if flatType(t) {
			sharedVars = append(sharedVars, sharedVar{name: n, ptr: v.UnsafePointer(), size: t.Size()})
		}
	}
	sort.Slice(sharedVars, func(i, j int) bool { return sharedVars[i].name < sharedVars[j].name })
	if modePtr == nil {
		modePtr = &decimal128.DefaultRoundingMode
	}
}

// sharedHashes returns one hash per shared variable.
//
//go:norace
func sharedHashes(dst []uint64) []uint64 {
	dst = dst[:0]
	for _, sv := range sharedVars {
		var b []byte
		h := uint64(fnvOff)
		if sv.bytesPtr != nil {
			b = *sv.bytesPtr
			h ^= uint64(len(b))
			h *= fnvPrime
		} else {
			b = unsafe.Slice((*byte)(sv.ptr), sv.size)
		}
		for len(b) >= 8 {
			h ^= *(*uint64)(unsafe.Pointer(&b[0]))
			h *= fnvPrime
			b = b[8:]
		}
		for _, c := range b {
			h ^= uint64(c)
			h *= fnvPrime
		}
		dst = append(dst, h)
	}
	return dst
}

// epochRun is the state of one pass over one epoch.
type epochRun struct {
	sim         *Sim
	prog        *Program
	ep          *Epoch
	epIdx       int
	opt         *Options
	pool        *poolObjs
	poolText    string
	poolHash    uint64
	clientWrote bool // a client wrote to memory it got from the library since the last invariant check
	baseShared  []uint64
	tmpShared   []uint64
	ctxs        []*Ctx
	results     [][]*Result
	viol        []Violation
	streams     []*Stream
	plan        bool // apply the pre-emption plan (second pass)
}

// noteClientWrite records that a client has just written to (or recycled)
// memory it got from the library.
//
//go:norace
func (e *epochRun) noteClientWrite() {
	if e != nil {
		e.clientWrote = true
	}
}

//go:norace
func (e *epochRun) addViol(class, op, detail string, task, idx int) {
	if len(e.viol) < 32 {
		e.viol = append(e.viol, Violation{Property: e.opt.Property, Class: class, Op: op, Detail: detail, Epoch: e.epIdx, Task: task, Index: idx})
	}
}

// checkShared evaluates the immutability invariant; called at every context
// switch and every operation boundary.
//
//go:norace
func (e *epochRun) checkShared(t *Task) {
	op := "-"
	task, idx := -1, -1
	if t != nil {
		op, task, idx = t.OpKind, t.ID, t.OpIndex
	}
	if uint8(*modePtr) != e.ep.Mode {
		e.addViol(VShared, op, fmt.Sprintf("DefaultRoundingMode is %d, the epoch set %d", uint8(*modePtr), e.ep.Mode), task, idx)
		*modePtr = decimal128.RoundingMode(e.ep.Mode)
	}
	e.tmpShared = sharedHashes(e.tmpShared)
	for i, h := range e.tmpShared {
		if h != e.baseShared[i] {
			// A table of the library changed. If a client has just written
			// through memory the library gave it (Scribble, a recycled
			// returned slice), the library handed out an alias of its own
			// state: a violation. A write by the library itself to one of its
			// own tables (lazy initialisation, say) is not judged by its mere
			// existence: if it is unsynchronised the race build reports it, and
			// if it changes a result the result oracles do.
			if e.clientWrote {
				e.addViol(VShared, op, "package-level variable "+sharedVars[i].name+" changed after the caller wrote to memory the library had returned", task, idx)
			} else {
				InternalTableWrites++
			}
			e.baseShared[i] = h
		}
	}
	e.clientWrote = false
	if h := e.pool.hash(); h != e.poolHash {
		txt := e.pool.render()
		e.addViol(VInput, op, "a shared by-reference input changed: "+diffText(e.poolText, txt), task, idx)
		e.poolText = txt
		e.poolHash = h
	}
}

func diffText(a, b string) string {
	as, bs := strings.Split(a, ";"), strings.Split(b, ";")
	for i := range as {
		if i >= len(bs) || as[i] != bs[i] {
			x, y := as[i], ""
			if i < len(bs) {
				y = bs[i]
			}
			if len(x) > 60 {
				x = x[:60] + "..."
			}
			if len(y) > 60 {
				y = y[:60] + "..."
			}
			return fmt.Sprintf("object %d: %s -> %s", i, x, y)
		}
	}
	return "length changed"
}

func (e *epochRun) runTask(t *Task, ti int) {
	tp := &e.ep.Tasks[ti]
	x := e.ctxs[ti]
	for oi := range tp.Ops {
		op := &tp.Ops[oi]
		def := Ops[op.Kind]
		r := &Result{}
		if def == nil {
			harnessFail("unknown op kind %q", op.Kind)
		}
		var pre []Preempt
		if e.plan {
			pre = op.Pre
		}
		e.sim.AdvanceClock(e.prog.ClockJump(e.epIdx, ti, oi))
		e.sim.BeginOp(oi, op.Kind, pre)
		if e.plan {
			e.sim.SetLockPlan(op.PreLock)
		}
		def.Exec(x, op, r)
		r.Steps = e.sim.EndOp()
		x.results = append(x.results, r)
		e.results[ti] = append(e.results[ti], r)
		e.checkShared(e.sim.Cur())
		if e.plan && op.After != nil {
			e.sim.YieldTo(*op.After)
		}
	}
}

// The library never sees the real clock: logical time starts at a fixed
// instant in every process, advances with the statements executed and the
// planned jumps, and continues from pass to pass (sched.go, Clock). Outside of
// a pass VerifClock keeps answering from the last simulator.

// runEpochPass executes one epoch once. plan=false is the sequential
// reference pass (every task runs until it finishes or blocks).
func runEpochPass(p *Program, ei int, opt *Options, plan bool) *epochRun {
	ep := &p.Epochs[ei]
	e := &epochRun{prog: p, ep: ep, epIdx: ei, opt: opt, plan: plan}
	e.sim = NewSim(opt.Budget, opt.Sites)
	e.sim.TraceOn = opt.Trace && plan
	decimal128.VerifHook = e.sim.Hook
	decimal128.VerifCostHook = e.sim.CostHook
	decimal128.VerifLockHook = e.sim.LockHook
	e.sim.ClockBase = ClockNow()
	decimal128.VerifClock = e.sim.Clock
	*modePtr = decimal128.RoundingMode(ep.Mode)
	e.pool = buildPool(&p.Pool)
	e.poolText = e.pool.render()
	e.poolHash = e.pool.hash()
	e.baseShared = sharedHashes(nil)
	for si := range ep.Streams {
		e.streams = append(e.streams, newStream(e.sim, &ep.Streams[si]))
	}
	e.results = make([][]*Result, len(ep.Tasks))
	for ti := range ep.Tasks {
		x := &Ctx{sim: e.sim, ep: e, mode: ep.Mode, pool: e.pool, priv: buildPriv(&ep.Tasks[ti].Priv), streams: e.streams, task: ti}
		e.ctxs = append(e.ctxs, x)
		ti := ti
		e.sim.AddTask(func(t *Task) { e.runTask(t, ti) })
	}
	e.sim.OnSwitch = e.checkShared
	first := 0
	if plan {
		first = ep.First
	}
	e.sim.Run(first)
	decimal128.VerifHook = nil
	decimal128.VerifCostHook = nil
	decimal128.VerifLockHook = nil
	for _, lc := range e.sim.LockCycles {
		e.addViol(VLiveness, lc.Kind, lc.Detail, lc.Task, lc.Op)
	}
	e.checkShared(nil)
	// result stability: everything the library returned still reads the same
	for ti, rs := range e.results {
		for oi, r := range rs {
			if r.Err != nil {
				if now := r.Err.Error(); now != r.ErrText {
					e.addViol(VUnstable, ep.Tasks[ti].Ops[oi].Kind, fmt.Sprintf("the error returned read %.120q at the time and %.120q later (a shared error value that somebody modified)", r.ErrText, now), ti, oi)
				}
			}
			for _, k := range r.keeps {
				if !k.stale() && k.current() != k.copyOf {
					e.addViol(VUnstable, ep.Tasks[ti].Ops[oi].Kind, fmt.Sprintf("%s returned %.60q, which later read %.60q", k.what, k.copyOf, k.current()), ti, oi)
				}
			}
		}
	}
	e.sim.Close()
	return e
}

// Execute runs a Program: per epoch a sequential reference pass and the
// planned concurrent pass, then all oracles.
func Execute(p *Program, opt *Options) *Outcome {
	out := &Outcome{Faults: map[string]int{}, SharedIn: len(p.Pool.Bytes)}
	dropEphemeralLockEdges()
	h := fnv.New64a()
	sched := fnv.New64a()
	seen := map[string]string{} // (mode, op description) -> result key, across epochs
	out.EpochKeys = make([]uint64, len(p.Epochs))
	out.EpochOpKeys = make([][]string, len(p.Epochs))
	out.OpSteps = make([][][]uint64, len(p.Epochs))
	for k := range p.Epochs {
		ei := k
		if opt.Permute {
			ei = len(p.Epochs) - 1 - k
		}
		ep := &p.Epochs[ei]
		cold := p.Cold && k == 0 && !opt.RefOnly
		var conc *epochRun
		if cold {
			// no calibration is possible without touching the library first:
			// the schedule is planned with guessed operation lengths
			if opt.Plan != nil {
				opt.Plan(ei, nil)
			}
			conc = runEpochPass(p, ei, opt, true)
		}
		ref := runEpochPass(p, ei, opt, false)
		steps := make([][]uint64, len(ep.Tasks))
		for ti, rs := range ref.results {
			for _, r := range rs {
				steps[ti] = append(steps[ti], r.Steps)
				if r.Steps > out.MaxOpSteps {
					out.MaxOpSteps = r.Steps
				}
			}
		}
		out.OpSteps[ei] = steps
		out.Steps += ref.sim.Steps
		out.BigCalls += ref.sim.BigCalls
		out.BigCost += ref.sim.BigCost
		if opt.RefOnly {
			out.Violations = append(out.Violations, ref.viol...)
			continue
		}
		if !cold {
			if opt.Plan != nil {
				opt.Plan(ei, steps)
			}
			conc = runEpochPass(p, ei, opt, true)
		}
		out.Steps += conc.sim.Steps
		out.BigCalls += conc.sim.BigCalls
		out.BigCost += conc.sim.BigCost
		out.Switches += conc.sim.Switches
		out.Preempts += conc.sim.Preempts
		out.SyncPre += conc.sim.LockPreempts
		out.FairYields += conc.sim.FairYields
		out.Overlaps = append(out.Overlaps, conc.sim.Overlaps...)
		if out.SiteHits == nil {
			out.SiteHits = make([]uint32, len(conc.sim.SiteHits))
		}
		for i, c := range conc.sim.SiteHits {
			out.SiteHits[i] += c
		}
		if ref.sim.Deadlock || conc.sim.Deadlock {
			out.Deadlock = true
		}
		fmt.Fprintf(h, "E%d:%x:%x;", ei, ref.sim.EvHash, conc.sim.EvHash)
		fmt.Fprintf(sched, "%x;", conc.sim.EvHash)
		for _, s := range conc.streams {
			s.account(out.Faults)
		}
		if opt.Trace {
			for _, ev := range conc.sim.Trace {
				at := ""
				if ev.Kind == 'p' || ev.Kind == 'k' || ev.Kind == 'l' {
					at = " at " + SiteName(ev.Site)
				}
				out.Trace = append(out.Trace, fmt.Sprintf("#%d %c t%d->t%d op=%d step=%d%s", ev.Seq, ev.Kind, ev.From, ev.To, ev.Op, ev.Step, at))
			}
		}
		viol := append([]Violation{}, ref.viol...)
		viol = append(viol, conc.viol...)
		for ti := range ep.Tasks {
			x := conc.ctxs[ti]
			for oi := range ep.Tasks[ti].Ops {
				op := &ep.Tasks[ti].Ops[oi]
				def := Ops[op.Kind]
				var rr, rc *Result
				if oi < len(ref.results[ti]) {
					rr = ref.results[ti][oi]
				}
				if oi < len(conc.results[ti]) {
					rc = conc.results[ti][oi]
				}
				if rr == nil || rc == nil {
					viol = append(viol, Violation{Property: opt.Property, Class: VHarnessFail, Op: op.Kind, Detail: "operation did not run", Epoch: ei, Task: ti, Index: oi})
					continue
				}
				out.Ops++
				kr, kc := rr.Key(), rc.Key()
				fmt.Fprintf(h, "%d.%d:%s|%s;", ti, oi, kr, kc)
				ek := out.EpochKeys[ei]
				if ek == 0 {
					ek = fnvOff
				}
				for i := 0; i < len(kc); i++ {
					ek ^= uint64(kc[i])
					ek *= fnvPrime
				}
				ek ^= uint64(ti)<<32 | uint64(oi)
				ek *= fnvPrime
				out.EpochKeys[ei] = ek
				if opt.KeepKeys {
					out.EpochOpKeys[ei] = append(out.EpochOpKeys[ei], fmt.Sprintf("%d.%d %s %s", ti, oi, op.Kind, kc))
				}
				add := func(class, detail string) {
					viol = append(viol, Violation{Property: opt.Property, Class: class, Op: op.Kind, Detail: detail, Epoch: ei, Task: ti, Index: oi})
				}
				for _, r := range []*Result{rr, rc} {
					for _, v := range r.Viol {
						add(VInput, v)
					}
					for _, v := range r.Incons {
						add(VNondet, v)
					}
					if r.Deadlock {
						add(VLiveness, r.Panic)
					} else if r.Budget {
						add(VBudget, fmt.Sprintf("operation still running after %d statements", opt.Budget))
					} else if r.HasPanic && (def.PanicOK == nil || !def.PanicOK(x, op, r)) {
						add(VPanic, r.Panic)
					}
				}
				if kr != kc && !op.streamOp() {
					add(VNondet, fmt.Sprintf("sequential %.200s / concurrent %.200s", kr, kc))
				}
				if !op.streamOp() && !op.historyOp() {
					desc := fmt.Sprintf("%d|%s|%v|%v|%v|%v", ep.Mode, op.Kind, op.D, op.I, op.S, op.B)
					if prev, ok := seen[desc]; ok {
						if prev != kc {
							add(VNondet, fmt.Sprintf("same call gave %.200s earlier and %.200s now", prev, kc))
						}
					} else {
						seen[desc] = kc
					}
				}
				if opt.Checks && def.Check != nil {
					if s := def.Check(x, op, rc); s != "" {
						add(VWrong, s)
					} else if kr != kc {
						if s := def.Check(ref.ctxs[ti], op, rr); s != "" {
							add(VWrong, s)
						}
					}
				}
			}
		}
		if opt.Reverse {
			viol = append(viol, reversePass(p, ei, opt, conc)...)
		}
		for _, pass := range []*epochRun{ref, conc} {
			pass := pass
			stop := false
			addf := func(class, op, detail string, task, idx int) {
				viol = append(viol, Violation{Property: opt.Property, Class: class, Op: op, Detail: detail, Epoch: ei, Task: task, Index: idx})
				stop = true
			}
			if opt.Checks {
				for si, s := range pass.streams {
					checkScanStream(pass, si, s, addf)
					checkJSONStream(pass, si, s, addf)
				}
			}
			if stop {
				break
			}
		}
		out.Violations = append(out.Violations, viol...)
	}
	out.Hash = h.Sum64()
	out.SchedHash = sched.Sum64()
	for k := range out.Faults {
		out.FaultKinds = append(out.FaultKinds, k)
	}
	sort.Strings(out.FaultKinds)
	return out
}

// reversePass re-executes the history-free operations of an epoch one by one,
// last task first and last operation first, each on freshly built objects,
// on the controller. A result that differs from the one obtained in program
// order depends on something other than the arguments and the mode.
func reversePass(p *Program, ei int, opt *Options, conc *epochRun) []Violation {
	ep := &p.Epochs[ei]
	var viol []Violation
	sm := NewSim(opt.Budget, opt.Sites)
	defer sm.Close()
	decimal128.VerifHook = sm.Hook
	decimal128.VerifCostHook = sm.CostHook
	decimal128.VerifLockHook = sm.LockHook
	sm.ClockBase = ClockNow()
	decimal128.VerifClock = sm.Clock
	defer func() { decimal128.VerifHook = nil; decimal128.VerifCostHook = nil; decimal128.VerifLockHook = nil }()
	*modePtr = decimal128.RoundingMode(ep.Mode)
	var pool *poolObjs
	var poolHash uint64
	for ti := len(ep.Tasks) - 1; ti >= 0; ti-- {
		for oi := len(ep.Tasks[ti].Ops) - 1; oi >= 0; oi-- {
			op := &ep.Tasks[ti].Ops[oi]
			if op.streamOp() || op.historyOp() || oi >= len(conc.results[ti]) {
				continue
			}
			def := Ops[op.Kind]
			if pool == nil || pool.hash() != poolHash {
				pool = buildPool(&p.Pool)
				poolHash = pool.hash()
			}
			e := &epochRun{sim: sm, prog: p, ep: ep, epIdx: ei, opt: opt, pool: pool}
			x := &Ctx{sim: sm, ep: e, mode: ep.Mode, pool: pool, priv: &privObjs{}, task: ti}
			r := &Result{}
			sm.BeginOp(oi, op.Kind, nil)
			def.Exec(x, op, r)
			sm.EndOp()
			if got, want := r.Key(), conc.results[ti][oi].Key(); got != want {
				viol = append(viol, Violation{Property: opt.Property, Class: VNondet, Op: op.Kind, Epoch: ei, Task: ti, Index: oi,
					Detail: fmt.Sprintf("result depends on the calls made before: in program order %.200s / alone, in reverse order %.200s", want, got)})
			}
		}
	}
	return viol
}
