package sim

import (
	"bytes"
	"encoding/json"
	"errors"
	"fmt"
	"math/big"
	"strings"

	"dsim/ref"
)

// ---------- C13: JSON ----------

// jsonNumber reports whether s matches the RFC 8259 number grammar.
func jsonNumber(s string) bool {
	i := 0
	if i < len(s) && s[i] == '-' {
		i++
	}
	if i >= len(s) {
		return false
	}
	if s[i] == '0' {
		i++
	} else if s[i] >= '1' && s[i] <= '9' {
		for i < len(s) && s[i] >= '0' && s[i] <= '9' {
			i++
		}
	} else {
		return false
	}
	if i < len(s) && s[i] == '.' {
		i++
		st := i
		for i < len(s) && s[i] >= '0' && s[i] <= '9' {
			i++
		}
		if i == st {
			return false
		}
	}
	if i < len(s) && (s[i] == 'e' || s[i] == 'E') {
		i++
		if i < len(s) && (s[i] == '+' || s[i] == '-') {
			i++
		}
		st := i
		for i < len(s) && s[i] >= '0' && s[i] <= '9' {
			i++
		}
		if i == st {
			return false
		}
	}
	return i == len(s)
}

// checkJSONNumber judges MarshalJSON's output for a finite d.
func checkJSONNumber(d D, text string) string {
	n := NumOf(d)
	if !jsonNumber(text) {
		return fmt.Sprintf("MarshalJSON(%s) = %q is not a JSON number (RFC 8259)", n, text)
	}
	got, ok := ref.ParseNumeral(text)
	if !ok {
		return fmt.Sprintf("MarshalJSON(%s) = %q cannot be read back", n, text)
	}
	if !ref.SameValue(got, n) {
		return fmt.Sprintf("MarshalJSON(%s) = %q denotes %s", n, text, got)
	}
	// no superfluous digits: the significant digits written are exactly the
	// value's digits (no trailing zeros in a fraction, none before an exponent)
	mant := text
	if i := strings.IndexAny(mant, "eE"); i >= 0 {
		mant = mant[:i]
		if strings.Contains(mant, ".") && strings.HasSuffix(mant, "0") || !strings.Contains(mant, ".") && len(strings.TrimLeft(mant, "-")) > 1 && strings.HasSuffix(mant, "0") {
			return fmt.Sprintf("MarshalJSON(%s) = %q has superfluous zeros in the mantissa", n, text)
		}
	} else if strings.Contains(mant, ".") && strings.HasSuffix(mant, "0") {
		return fmt.Sprintf("MarshalJSON(%s) = %q has superfluous trailing zeros", n, text)
	}
	return ""
}

// jsonTokenKind classifies a token placed where a Decimal is expected.
func jsonTokenKind(tok string) string {
	switch {
	case tok == "null":
		return "null"
	case jsonNumber(tok):
		return "number"
	case json.Valid([]byte(tok)):
		return "other-value"
	}
	return "garbage"
}

// judgeJSONToken compares what a Decimal destination holds after decoding tok.
func judgeJSONToken(tok string, mode uint8, before, after D, where string) string {
	switch jsonTokenKind(tok) {
	case "null":
		if Hex(before) != Hex(after) {
			return fmt.Sprintf("%s: null changed the receiver from %s to %s", where, NumOf(before), NumOf(after))
		}
	case "number":
		lit := ref.ParseLiteral(tok, ref.LitOpts{NoUnderscore: true, NoSpecial: true})
		want := lit.Value(int(mode))
		if want.Overflow {
			return ""
		}
		got := NumOf(after)
		if !ref.SameValue(got, want.N) {
			if want.Underflow && mode >= 2 {
				for m := 0; m < 6; m++ {
					if ref.SameValue(got, lit.Value(m).N) {
						return ""
					}
				}
			}
			return fmt.Sprintf("%s: JSON number %.60q decoded as %s, reference %s", where, tok, got, want.N)
		}
	}
	return ""
}

type jsonEmb struct{ E D }

type jsonDoc2 struct {
	Arr [2]D
	P   map[string]*D
	PP  **D
	I   any
	S   []*D
	jsonEmb
	O   D               `json:"o,omitempty"`
	Raw json.RawMessage `json:"raw,omitempty"`
}

type jsonDoc struct {
	A D
	B *D
	C []D
	M map[string]D
}

func init() {
	d := reg("MarshalJSON", func(x *Ctx, op *Op, r *Result) {
		a := op.dec(0)
		x.call(r, func() { b, err := a.MarshalJSON(); r.keepBytes("MarshalJSON", b); r.err(err) })
	})
	d.Check = func(x *Ctx, op *Op, r *Result) string {
		if s := noPanic(r); s != "" {
			return s
		}
		a := op.dec(0)
		if isSpecBits(a) {
			var uve *json.UnsupportedValueError
			if !errors.As(r.Err, &uve) {
				return fmt.Sprintf("MarshalJSON(%s) returned %v, want *json.UnsupportedValueError", NumOf(a), r.Err)
			}
			return ""
		}
		if r.Err != nil {
			return fmt.Sprintf("MarshalJSON(%s) failed: %v", NumOf(a), r.Err)
		}
		return checkJSONNumber(a, r.S[0])
	}

	// UnmarshalJSON: B[0] = data, I[0] = receiver slot.
	reg("UnmarshalJSON", func(x *Ctx, op *Op, r *Result) {
		in, chk := x.input(op.bytes(0))
		d := x.recv(op.int(0))
		before := *d
		x.call(r, func() { err := d.UnmarshalJSON(in); r.err(err); r.dec(before, *d) })
		if v := chk(); v != "" {
			r.violation(v)
		}
	}).Check = func(x *Ctx, op *Op, r *Result) string {
		if s := noPanic(r); s != "" {
			return s
		}
		tok := string(op.bytes(0))
		before, after := r.D[0], r.D[1]
		switch jsonTokenKind(tok) {
		case "null":
			if r.Err != nil {
				return fmt.Sprintf("UnmarshalJSON(null) failed: %v", r.Err)
			}
			return judgeJSONToken(tok, x.mode, before, after, "UnmarshalJSON")
		case "number":
			lit := ref.ParseLiteral(tok, ref.LitOpts{NoUnderscore: true, NoSpecial: true})
			if r.Err != nil {
				if lit.Value(int(x.mode)).Overflow {
					return ""
				}
				return fmt.Sprintf("UnmarshalJSON(%.60q) failed: %v", tok, r.Err)
			}
			return judgeJSONToken(tok, x.mode, before, after, "UnmarshalJSON")
		case "other-value":
			if r.Err == nil {
				return fmt.Sprintf("UnmarshalJSON(%.60q) (a JSON value that is not a number) returned no error", tok)
			}
			return ""
		}
		// not JSON at all: an error, or the value of the same text read as a
		// literal without separators - never any other value
		if r.Err != nil {
			return ""
		}
		if tok == "" {
			// the repository's own tests pin UnmarshalJSON(nil) as a no-op
			// (like null); encoding/json never passes empty input
			if Hex(before) != Hex(after) {
				return "UnmarshalJSON of empty input changed the receiver"
			}
			return ""
		}
		lit := ref.ParseLiteral(tok, ref.LitOpts{NoUnderscore: true, NoSpecial: true})
		if lit.Status == ref.LitInvalid {
			return fmt.Sprintf("UnmarshalJSON(%.60q) (not a number) returned no error; receiver now %s", tok, NumOf(after))
		}
		want := lit.Value(int(x.mode))
		if want.Overflow || ref.SameValue(NumOf(after), want.N) {
			return ""
		}
		if want.Underflow && x.mode >= 2 {
			for m := 0; m < 6; m++ {
				if ref.SameValue(NumOf(after), lit.Value(m).N) {
					return ""
				}
			}
		}
		return fmt.Sprintf("UnmarshalJSON(%.60q) produced %s, the text denotes %s", tok, NumOf(after), want.N)
	}

	// JSONRT: D[0..3] = values for A, *B, C[0], M["k"]; I[0] = 1 if B is nil;
	// D[4..] = stale destination contents. Marshal with encoding/json, decode
	// into a reused destination.
	reg("JSONRT", func(x *Ctx, op *Op, r *Result) {
		a, b, c, m := op.dec(0), op.dec(1), op.dec(2), op.dec(3)
		src := jsonDoc{A: a, C: []D{c, a}, M: map[string]D{"k": m}}
		if op.int(0) == 0 {
			src.B = &b
		}
		stale := op.dec(4)
		dst := jsonDoc{A: stale, B: &stale, C: []D{stale}, M: map[string]D{"k": stale, "z": stale}}
		x.call(r, func() {
			out, err := json.Marshal(&src)
			r.str(string(out))
			r.err(err)
			if err != nil {
				return
			}
			err = json.Unmarshal(out, &dst)
			if err != nil {
				r.extra("unmarshal: " + err.Error())
				return
			}
			r.dec(dst.A)
			if dst.B != nil {
				r.dec(*dst.B)
				r.bool(true)
			} else {
				r.dec(D{})
				r.bool(false)
			}
			if len(dst.C) == 2 {
				r.dec(dst.C[0], dst.C[1])
			} else {
				r.extra(fmt.Sprintf("len(C)=%d", len(dst.C)))
			}
			r.dec(dst.M["k"])
		})
	}).Check = func(x *Ctx, op *Op, r *Result) string {
		if s := noPanic(r); s != "" {
			return s
		}
		vals := []D{op.dec(0), op.dec(1), op.dec(2), op.dec(3)}
		special := false
		for i, v := range vals {
			if i == 1 && op.int(0) != 0 {
				continue
			}
			if isSpecBits(v) {
				special = true
			}
		}
		if special {
			var uve *json.UnsupportedValueError
			if !errors.As(r.Err, &uve) {
				return fmt.Sprintf("json.Marshal of a document with NaN/Inf returned %v, want *json.UnsupportedValueError", r.Err)
			}
			return ""
		}
		if r.Err != nil {
			return "json.Marshal failed: " + r.Err.Error()
		}
		if len(r.X) > 0 {
			return fmt.Sprintf("document %s: %s", r.S[0], r.X[0])
		}
		if len(r.D) != 5 {
			return "decoded document has the wrong shape"
		}
		want := []D{vals[0], vals[1], vals[2], vals[0], vals[3]}
		names := []string{"A", "B", "C[0]", "C[1]", `M["k"]`}
		for i := range want {
			if i == 1 && op.int(0) != 0 {
				if r.B[0] {
					return "null did not decode to a nil *Decimal"
				}
				continue
			}
			if s := checkRoundTrip(want[i], r.D[i], "encoding/json field "+names[i]); s != "" {
				return s + " (document " + r.S[0] + ")"
			}
		}
		return ""
	}

	// JSONRT2: the shapes in which encoding/json reaches UnmarshalJSON in other
	// ways than JSONRT: a fixed-size array, map values that are pointers, an
	// interface holding a pointer, an embedded struct, a pointer to a pointer,
	// a slice of pointers, a json.RawMessage forwarded by hand. D[0..3] =
	// values, D[4] = stale destination content; I[0] bit 0: the pointer fields
	// are nil (null), bit 1: indented output without HTML escaping, bit 2: the
	// destination's pointers all alias one stale Decimal.
	reg("JSONRT2", func(x *Ctx, op *Op, r *Result) {
		a, b, c, e := op.dec(0), op.dec(1), op.dec(2), op.dec(3)
		fl := op.int(0)
		src := jsonDoc2{Arr: [2]D{a, b}, jsonEmb: jsonEmb{E: e}, O: c, I: &a, S: []*D{&b, nil}, Raw: nil}
		if fl&1 == 0 {
			pc := &c
			src.P = map[string]*D{"k": &b}
			src.PP = &pc
		}
		st := make([]D, 6)
		for i := range st {
			st[i] = op.dec(4)
		}
		if fl&4 != 0 {
			st = st[:1]
		}
		at := func(i int) *D { return &st[i%len(st)] }
		pp := at(1)
		dst := jsonDoc2{Arr: [2]D{op.dec(4), op.dec(4)}, jsonEmb: jsonEmb{E: op.dec(4)}, O: op.dec(4),
			P: map[string]*D{"k": at(0), "z": at(5)}, PP: &pp, I: at(2), S: []*D{at(3), at(4), at(5)}}
		x.call(r, func() {
			var buf bytes.Buffer
			enc := json.NewEncoder(&buf)
			if fl&2 != 0 {
				enc.SetIndent(" ", "\t")
				enc.SetEscapeHTML(false)
			}
			err := enc.Encode(&src)
			r.str(buf.String())
			r.err(err)
			if err != nil {
				return
			}
			// the Raw field travels as a json.RawMessage and is handed to
			// UnmarshalJSON by the client itself
			var raw struct{ O json.RawMessage }
			if err := json.Unmarshal(buf.Bytes(), &raw); err != nil {
				r.extra("unmarshal (RawMessage): " + err.Error())
				return
			}
			var viaRaw D
			if err := viaRaw.UnmarshalJSON(raw.O); err != nil {
				r.extra("UnmarshalJSON(RawMessage): " + err.Error())
				return
			}
			if err := json.Unmarshal(buf.Bytes(), &dst); err != nil {
				r.extra("unmarshal: " + err.Error())
				return
			}
			r.dec(dst.Arr[0], dst.Arr[1], dst.E, dst.O, viaRaw)
			pi, _ := dst.I.(*D)
			ptrs := []*D{nil, nil, pi, nil}
			if dst.P != nil {
				ptrs[0] = dst.P["k"]
			}
			if dst.PP != nil {
				ptrs[1] = *dst.PP
			}
			if len(dst.S) == 2 {
				ptrs[3] = dst.S[0]
				r.bool(dst.S[1] == nil)
			} else {
				r.extra(fmt.Sprintf("len(S)=%d", len(dst.S)))
			}
			for _, q := range ptrs {
				if q != nil {
					r.dec(*q)
					r.bool(true)
				} else {
					r.dec(D{})
					r.bool(false)
				}
			}
			_, stays := dst.P["z"]
			r.bool(stays)
		})
	}).Check = func(x *Ctx, op *Op, r *Result) string {
		if s := noPanic(r); s != "" {
			return s
		}
		vals := []D{op.dec(0), op.dec(1), op.dec(2), op.dec(3)}
		for _, v := range vals {
			if isSpecBits(v) {
				var uve *json.UnsupportedValueError
				if !errors.As(r.Err, &uve) {
					return fmt.Sprintf("Encoder.Encode of a document with NaN/Inf returned %v, want *json.UnsupportedValueError", r.Err)
				}
				return ""
			}
		}
		if r.Err != nil {
			return "Encoder.Encode failed: " + r.Err.Error()
		}
		if len(r.X) > 0 {
			return fmt.Sprintf("document %s: %s", r.S[0], r.X[0])
		}
		if len(r.D) != 9 || len(r.B) != 6 {
			return "decoded document has the wrong shape"
		}
		a, b, c, e := vals[0], vals[1], vals[2], vals[3]
		null := op.int(0)&1 != 0
		want := []D{a, b, e, c, c, b, c, a, b}
		if op.int(0)&4 != 0 {
			// the destination's PP, I and S[0] point at one Decimal (the
			// client's own aliasing): encoding/json decodes into it three
			// times in document order and the last one, S[0], stays
			want[6], want[7] = b, b
		}
		names := []string{"Arr[0]", "Arr[1]", "embedded E", "o", "o via json.RawMessage", `*P["k"]`, "**PP", "I.(*Decimal)", "*S[0]"}
		if !r.B[0] {
			return "S[1]: null did not decode to a nil *Decimal"
		}
		for i := range want {
			if i >= 5 {
				present := r.B[1+i-5]
				if null && (i == 5 || i == 6) {
					if present {
						return names[i] + ": null did not reset the pointer"
					}
					continue
				}
				if !present {
					return names[i] + ": pointer is nil after decoding a number"
				}
			}
			if s := checkRoundTrip(want[i], r.D[i], "encoding/json field "+names[i]); s != "" {
				return s + " (document " + r.S[0] + ")"
			}
		}
		return ""
	}

	// JSONDoc: S[0..2] = tokens for the fields A, C[0], M["k"]; D[0] = stale
	// destination content. Decoded with encoding/json into a reused destination.
	reg("JSONDoc", func(x *Ctx, op *Op, r *Result) {
		stale := op.dec(0)
		doc := `{"A":` + op.str(0) + `,"C":[` + op.str(1) + `],"M":{"k":` + op.str(2) + `}}`
		dst := jsonDoc{A: stale, M: map[string]D{"k": stale}}
		x.call(r, func() {
			err := json.Unmarshal([]byte(doc), &dst)
			r.err(err)
			r.dec(dst.A)
			if len(dst.C) == 1 {
				r.dec(dst.C[0])
			} else {
				r.dec(D{})
			}
			r.dec(dst.M["k"])
		})
	}).Check = func(x *Ctx, op *Op, r *Result) string {
		if s := noPanic(r); s != "" {
			return s
		}
		toks := []string{op.str(0), op.str(1), op.str(2)}
		bad, overflow := false, false
		for _, t := range toks {
			switch jsonTokenKind(t) {
			case "other-value", "garbage":
				bad = true
			case "number":
				if ref.ParseLiteral(t, ref.LitOpts{NoUnderscore: true, NoSpecial: true}).Value(int(x.mode)).Overflow {
					overflow = true
				}
			}
		}
		if bad {
			if r.Err == nil {
				return fmt.Sprintf("document with a non-number where a Decimal is expected decoded without error: %v", toks)
			}
			return ""
		}
		if r.Err != nil {
			if overflow {
				return ""
			}
			return fmt.Sprintf("document %v failed to decode: %v", toks, r.Err)
		}
		stale := op.dec(0)
		if s := judgeJSONToken(toks[0], x.mode, stale, r.D[0], "field A"); s != "" {
			return s
		}
		if jsonTokenKind(toks[1]) == "number" {
			if s := judgeJSONToken(toks[1], x.mode, D{}, r.D[1], "element C[0]"); s != "" {
				return s
			}
		}
		if jsonTokenKind(toks[2]) == "number" {
			if s := judgeJSONToken(toks[2], x.mode, D{}, r.D[2], `M["k"]`); s != "" {
				return s
			}
		}
		return ""
	}
}

// ---------- C14: Compose / Decompose ----------

func partsDenote(form byte, neg bool, coef []byte, exp int32, d D) string {
	n := NumOf(d)
	switch n.Class {
	case ref.NaN:
		if form != 2 {
			return fmt.Sprintf("Decompose(NaN) returned form %d", form)
		}
		return ""
	case ref.Inf:
		if form != 1 || neg != n.Neg {
			return fmt.Sprintf("Decompose(%s) returned form %d neg %v", n, form, neg)
		}
		return ""
	}
	if form != 0 {
		return fmt.Sprintf("Decompose(%s) returned form %d", n, form)
	}
	if neg != n.Neg {
		return fmt.Sprintf("Decompose(%s) returned neg=%v", n, neg)
	}
	c := new(big.Int).SetBytes(coef)
	got := ref.Num{Neg: neg, Coef: c, Exp: int(exp)}
	if c.Sign() != 0 && (exp < -7000 || exp > 7000) {
		return fmt.Sprintf("Decompose(%s) returned exponent %d", n, exp)
	}
	if c.Sign() == 0 {
		got.Exp = 0
	}
	if !ref.SameValue(got, n) {
		return fmt.Sprintf("Decompose(%s) returned coefficient %x exponent %d, which denote %s", n, coef, exp, got)
	}
	return ""
}

func init() {
	// Decompose: D[0], I[0] = buffer slot (-1 nil). The parts are kept as a
	// row "in flight".
	reg("Decompose", func(x *Ctx, op *Op, r *Result) {
		a := op.dec(0)
		slot := op.int(0)
		buf := x.buf(slot)
		x.call(r, func() {
			form, neg, coef, exp := a.Decompose(buf)
			r.int(int64(form))
			r.bool(neg)
			r.str(string(coef))
			r.int(int64(exp))
			rw := row{form: form, neg: neg, coef: coef, exp: exp, src: a, seq: len(x.handed), valid: true}
			if coef != nil && (slot < 0 || int(slot) >= len(x.priv.bufs)) {
				// the caller owns a slice returned for a nil buffer: it may write
				// to it later (Scribble) ...
				r.keeps = append(r.keeps, &keep{what: "Decompose", bytes: coef, copyOf: string(coef), ctx: x, seq: len(x.handed)})
			}
			if op.int(1) == 1 && coef != nil && len(x.priv.bufs) > 0 {
				// ... or recycle it as the buffer of a later call, the usual
				// idiom  _, _, buf, _ = d.Decompose(buf[:0])
				adopt := int(op.int(2)) % len(x.priv.bufs)
				if adopt < 0 {
					adopt = -adopt
				}
				x.priv.bufs[adopt] = coef[:0]
				x.priv.bufGen[adopt]++
				x.priv.fromLib[adopt] = true
			}
			x.rows = append(x.rows, rw)
		})
		if r.HasPanic {
			x.rows = append(x.rows, row{})
		}
	}).Check = func(x *Ctx, op *Op, r *Result) string {
		if s := noPanic(r); s != "" {
			return s
		}
		return partsDenote(byte(r.I[0]), r.B[0], []byte(r.S[0]), int32(r.I[1]), op.dec(0))
	}

	// ComposeRow: I[0] = row index (mod rows), I[1] = receiver slot.
	// Composes parts that were decomposed earlier and held by the driver.
	reg("ComposeRow", func(x *Ctx, op *Op, r *Result) {
		if len(x.rows) == 0 {
			return
		}
		rw := x.rows[int(op.int(0))%len(x.rows)]
		if !rw.valid {
			return
		}
		// the driver may only rely on parts whose memory it neither handed out
		// again as a buffer nor wrote to itself
		exclusive := x.untouchedSince(rw.seq, rw.coef)
		d := x.recv(op.int(1))
		x.call(r, func() {
			err := d.Compose(rw.form, rw.neg, rw.coef, rw.exp)
			r.err(err)
			r.dec(rw.src, *d)
			r.bool(exclusive)
		})
	}).Check = func(x *Ctx, op *Op, r *Result) string {
		if s := noPanic(r); s != "" {
			return s
		}
		if len(r.D) == 0 || !r.B[0] {
			return ""
		}
		if r.Err != nil {
			return fmt.Sprintf("Compose(Decompose(%s)) failed: %v", NumOf(r.D[0]), r.Err)
		}
		return checkRoundTrip(r.D[0], r.D[1], "Decompose -> (held) -> Compose")
	}

	// Compose: I[0] = form, I[1] = neg, B[0] = coefficient, I[2] = exponent,
	// I[3] = receiver slot.
	reg("Compose", func(x *Ctx, op *Op, r *Result) {
		in, chk := x.input(op.bytes(0))
		d := x.recv(op.int(3))
		x.call(r, func() {
			err := d.Compose(byte(op.int(0)), op.int(1) != 0, in, int32(op.int(2)))
			r.err(err)
			r.dec(*d)
		})
		if v := chk(); v != "" {
			r.violation("Compose: " + v)
		}
	}).Check = func(x *Ctx, op *Op, r *Result) string {
		if s := noPanic(r); s != "" {
			return s
		}
		form, neg, exp := byte(op.int(0)), op.int(1) != 0, int32(op.int(2))
		got := NumOf(r.D[0])
		switch form {
		case 0:
			c := new(big.Int).SetBytes(op.bytes(0))
			want, ok := ref.Representable(neg, c, int64(exp))
			if !ok {
				if r.Err == nil {
					return fmt.Sprintf("Compose(%v, %s, %d) is not representable but returned %s without error", neg, c, exp, got)
				}
				return ""
			}
			if r.Err != nil {
				return fmt.Sprintf("Compose(%v, %s, %d) is representable (%s) but failed: %v", neg, c, exp, want, r.Err)
			}
			if !ref.SameValue(got, want) {
				return fmt.Sprintf("Compose(%v, %s, %d) = %s, want %s", neg, c, exp, got, want)
			}
		case 1:
			if r.Err != nil || got.Class != ref.Inf || got.Neg != neg {
				return fmt.Sprintf("Compose(form 1, neg %v) = %s, %v", neg, got, r.Err)
			}
		case 2:
			if r.Err != nil || got.Class != ref.NaN {
				return fmt.Sprintf("Compose(form 2) = %s, %v", got, r.Err)
			}
		default:
			if r.Err == nil {
				return fmt.Sprintf("Compose(form %d) returned no error", form)
			}
		}
		return ""
	}
}
