package sim

import (
	"bytes"
	"fmt"
	"strings"

	"dsim/ref"

	"github.com/woodsbury/decimal128"
)

// ---------- C07: formatting with flags, width and precision ----------

// parseSpec reads a directive without '%': flags in any order, optional
// width, optional ".precision", one verb.
func parseSpec(spec string) (f ref.Flags, verb byte, ok bool) {
	i := 0
flags:
	for ; i < len(spec); i++ {
		switch spec[i] {
		case '+':
			f.Plus = true
		case '-':
			f.Minus = true
		case '#':
			f.Sharp = true
		case ' ':
			f.Space = true
		case '0':
			f.Zero = true
		default:
			break flags
		}
	}
	for ; i < len(spec) && spec[i] >= '0' && spec[i] <= '9'; i++ {
		f.WidPresent = true
		f.Wid = f.Wid*10 + int(spec[i]-'0')
		if f.Wid > 1e6 {
			return f, 0, false
		}
	}
	if i < len(spec) && spec[i] == '.' {
		i++
		f.PrecPresent = true
		for ; i < len(spec) && spec[i] >= '0' && spec[i] <= '9'; i++ {
			f.Prec = f.Prec*10 + int(spec[i]-'0')
			if f.Prec > 1e6 {
				return f, 0, false
			}
		}
	}
	if i != len(spec)-1 {
		return f, 0, false
	}
	return f, spec[i], true
}

func isFloatVerb(v byte) bool {
	switch v {
	case 'e', 'E', 'f', 'F', 'g', 'G':
		return true
	}
	return false
}

// checkSpec judges text against the reference rendering of d under spec.
// Only finite values and the verbs the statement names are judged; a plain
// "v" directive is judged as the shortest form.
func checkSpec(d D, spec string, text string, what string) string {
	n := NumOf(d)
	f, verb, ok := parseSpec(spec)
	if !ok {
		return ""
	}
	if n.Class != ref.Finite {
		return ""
	}
	if verb == 'v' {
		if f == (ref.Flags{}) {
			return checkShortest(d, text, 'g')
		}
		return ""
	}
	if !isFloatVerb(verb) {
		return ""
	}
	want := ref.FormatNum(n, f, verb)
	if text != want {
		return fmt.Sprintf("%s of %s with %%%s: got %q, reference %q", what, n, spec, text, want)
	}
	return ""
}

// checkAccepted judges what a State that refused one whole Write call has
// accepted from the others: if those bytes, without surrounding blanks, are a
// well-formed finite numeral, they must be the reference rendering, a prefix
// of it (the rest was refused), or at least denote the same value with the
// same sign as the reference rendering does. Anything else means the peer was
// handed a numeral of another value.
func checkAccepted(d D, spec string, got string) string {
	n := NumOf(d)
	f, verb, ok := parseSpec(spec)
	if !ok || n.Class != ref.Finite {
		return ""
	}
	var want string
	switch {
	case verb == 'v' && f == (ref.Flags{}):
		want = ref.Shortest(n)
	case isFloatVerb(verb):
		want = ref.FormatNum(n, f, verb)
	default:
		return ""
	}
	g, w := strings.Trim(got, " "), strings.Trim(want, " ")
	if g == "" || strings.HasPrefix(w, g) {
		return ""
	}
	gl := ref.ParseLiteral(g, ref.LitOpts{NoUnderscore: true, NoSpecial: true})
	wl := ref.ParseLiteral(w, ref.LitOpts{NoUnderscore: true, NoSpecial: true})
	if gl.Status == ref.LitInvalid || wl.Status == ref.LitInvalid {
		return ""
	}
	gv, wv := gl.Value(0), wl.Value(0)
	if gv.Overflow || wv.Overflow || ref.SameValue(gv.N, wv.N) {
		return ""
	}
	return fmt.Sprintf("Format with %%%s of %s into a State that refused one Write call and accepted the others left %q on the stream, a numeral of another value (complete rendering %q)", spec, n, got, want)
}

// simState is a simulator-owned fmt.State: it answers Flag/Width/Precision
// exactly as planned (any combination, also those a particular fmt release
// would never produce) and collects what is written.
type simState struct {
	f      ref.Flags
	out    bytes.Buffer
	writes int
	// what Width and Precision answer next to ok=false (the interface
	// promises nothing about it; formatters other than fmt's leave the
	// number of the previous directive there)
	staleWid, stalePrec int
	// wmode 1: Write accepts wafter more bytes and then fails; 2: it then
	// reports short counts with a nil error as well; 3: it panics instead
	// (package fmt recovers panics of a Formatter, so a failing sink may well
	// panic and the process carries on)
	// 4: exactly the wafter-th Write call is refused as a whole (0 bytes, an
	// error) and every other call is accepted: a sink that is full once and
	// drained afterwards
	// 5: Write formats a Decimal itself before accepting the bytes
	wmode, wafter int
	refused       bool
	depth         int
	nested        string
}

var nestedDec = decimal128.New(-15, -1)

// peerPanic is what a simulated peer panics with.
type peerPanic struct{}

func (s *simState) Write(b []byte) (int, error) {
	s.writes++
	if s.wmode == 5 {
		// a logging or auditing sink: its Write formats a Decimal of its own
		// before it accepts the bytes (the library is re-entered from inside
		// Format)
		if s.depth == 0 {
			s.depth++
			s.nested = fmt.Sprintf("%v|%.2f", nestedDec, nestedDec)
			s.depth--
		}
		return s.out.Write(b)
	}
	if s.wmode == 4 {
		if s.writes == s.wafter {
			s.refused = true
			return 0, ErrInjected
		}
		return s.out.Write(b)
	}
	if s.wmode != 0 {
		if len(b) > s.wafter {
			n := s.wafter
			s.wafter = 0
			s.refused = true
			if s.wmode == 3 {
				panic(peerPanic{})
			}
			s.out.Write(b[:n])
			if s.wmode == 2 && s.writes%2 == 0 {
				return n, nil
			}
			return n, ErrInjected
		}
		s.wafter -= len(b)
	}
	return s.out.Write(b)
}

func (s *simState) Width() (int, bool) {
	if !s.f.WidPresent {
		return s.staleWid, false
	}
	return s.f.Wid, true
}

func (s *simState) Precision() (int, bool) {
	if !s.f.PrecPresent {
		return s.stalePrec, false
	}
	return s.f.Prec, true
}

func (s *simState) Flag(c int) bool {
	switch c {
	case '+':
		return s.f.Plus
	case '-':
		return s.f.Minus
	case '#':
		return s.f.Sharp
	case ' ':
		return s.f.Space
	case '0':
		return s.f.Zero
	}
	return false
}

func init() {
	// FormatFn: D[0], I[0] = format byte, I[1] = precision.
	reg("FormatFn", func(x *Ctx, op *Op, r *Result) {
		a, v, p := op.dec(0), byte(op.int(0)), int(op.int(1))
		x.call(r, func() { r.keepString("Format", decimal128.Format(a, v, p)) })
	}).Check = func(x *Ctx, op *Op, r *Result) string {
		if s := noPanic(r); s != "" {
			return s
		}
		return checkFormatFn(op.dec(0), byte(op.int(0)), int(op.int(1)), r.S[0], "Format")
	}

	// AppendFn: D[0], I[0] = format byte, I[1] = precision, I[2] = buffer slot.
	reg("AppendFn", func(x *Ctx, op *Op, r *Result) {
		a, v, p := op.dec(0), byte(op.int(0)), int(op.int(1))
		buf := x.buf(op.int(2))
		if op.int(3) == 1 {
			buf = buf[:0] // the scratch-buffer idiom: buf = Append(buf[:0], ...)
		}
		prefix := string(buf)
		x.call(r, func() {
			out := decimal128.Append(buf, a, v, p)
			r.str(prefix)
			r.keepBytesIn("Append", out, x, op.int(2))
			x.setBuf(op.int(2), out)
		})
	}).Check = func(x *Ctx, op *Op, r *Result) string {
		if s := noPanic(r); s != "" {
			return s
		}
		prefix, out := r.S[0], r.S[1]
		if !strings.HasPrefix(out, prefix) {
			return fmt.Sprintf("Append changed the caller's bytes: buffer held %q, result %q", prefix, out)
		}
		return checkFormatFn(op.dec(0), byte(op.int(0)), int(op.int(1)), out[len(prefix):], "Append")
	}

	// AppendM: D[0], S[0] = spec, I[0] = buffer slot.
	reg("AppendM", func(x *Ctx, op *Op, r *Result) {
		a, spec := op.dec(0), op.str(0)
		buf := x.buf(op.int(0))
		if op.int(1) == 1 {
			buf = buf[:0]
		}
		prefix := string(buf)
		x.call(r, func() {
			out := a.Append(buf, spec)
			r.str(prefix)
			r.keepBytesIn("Decimal.Append", out, x, op.int(0))
			x.setBuf(op.int(0), out)
		})
	}).Check = func(x *Ctx, op *Op, r *Result) string {
		if s := noPanic(r); s != "" {
			return s
		}
		prefix, out := r.S[0], r.S[1]
		if !strings.HasPrefix(out, prefix) {
			return fmt.Sprintf("Decimal.Append(buf, %q) changed the caller's bytes: buffer held %q, result %q", op.str(0), prefix, out)
		}
		return checkSpec(op.dec(0), op.str(0), out[len(prefix):], "Decimal.Append")
	}

	// Sprintf: D[0], S[0] = spec (without '%'), I[0] = variant
	// (0 Sprintf, 1 Appendf onto a private buffer I[1], 2 Fprintf to a bytes.Buffer).
	reg("Sprintf", func(x *Ctx, op *Op, r *Result) {
		a, spec := op.dec(0), op.str(0)
		x.call(r, func() {
			switch op.int(0) {
			case 1:
				buf := x.buf(op.int(1))
				prefix := string(buf)
				out := fmt.Appendf(buf, "%"+spec, a)
				x.setBuf(op.int(1), out)
				if !strings.HasPrefix(string(out), prefix) {
					r.violation("fmt.Appendf changed the caller's prefix")
				} else {
					r.str(string(out[len(prefix):]))
				}
			case 2:
				var b bytes.Buffer
				fmt.Fprintf(&b, "%"+spec, a)
				r.str(b.String())
			default:
				r.keepString("Sprintf", fmt.Sprintf("%"+spec, a))
			}
		})
	}).Check = func(x *Ctx, op *Op, r *Result) string {
		if s := noPanic(r); s != "" {
			return s
		}
		if len(r.S) == 0 {
			return ""
		}
		return checkSpec(op.dec(0), op.str(0), r.S[0], "fmt")
	}

	// FormatState: D[0], S[0] = spec describing the answers of a
	// simulator-owned fmt.State.
	reg("FormatState", func(x *Ctx, op *Op, r *Result) {
		a := op.dec(0)
		f, verb, ok := parseSpec(op.str(0))
		if !ok {
			return
		}
		st := &simState{f: f}
		if len(op.I) >= 4 {
			st.staleWid, st.stalePrec = int(op.int(0)), int(op.int(1))
			st.wmode, st.wafter = int(op.int(2)), int(op.int(3))
		}
		x.call(r, func() {
			func() {
				// a panic raised by the peer itself passes through the library;
				// it is not the library's panic
				defer func() {
					if p := recover(); p != nil {
						if _, ok := p.(peerPanic); !ok {
							panic(p)
						}
					}
				}()
				a.Format(st, rune(verb))
			}()
			r.str(st.out.String())
			if st.wmode == 5 && st.writes > 0 && st.nested != "-1.5|-1.50" {
				r.extra("a Decimal formatted inside the State's Write came out as " + st.nested)
			}
			r.int(int64(st.writes))
			if st.refused {
				r.int(1)
			} else {
				r.int(0)
			}
		})
	}).Check = func(x *Ctx, op *Op, r *Result) string {
		if s := noPanic(r); s != "" {
			return s
		}
		if len(r.S) == 0 {
			return ""
		}
		if len(r.X) > 0 {
			return r.X[0]
		}
		if len(r.I) >= 2 && r.I[1] == 1 {
			// the State refused bytes: termination without a panic is
			// required, and what the State did accept must not be a
			// well-formed numeral of another value (a formatter that goes on
			// writing after a refused Write can drop the sign or leading digits)
			if len(op.I) >= 4 && op.int(2) == 4 {
				return checkAccepted(op.dec(0), op.str(0), r.S[0])
			}
			return ""
		}
		what := "Format(State)"
		if len(op.I) >= 4 {
			what = fmt.Sprintf("Format(State answering (%d,false) for an absent width and (%d,false) for an absent precision)", op.int(0), op.int(1))
		}
		return checkSpec(op.dec(0), op.str(0), r.S[0], what)
	}

	// AppendVsSprintf: D[0], S[0] = spec. The statement's last clause.
	reg("AppendVsSprintf", func(x *Ctx, op *Op, r *Result) {
		a, spec := op.dec(0), op.str(0)
		x.call(r, func() {
			r.str(string(a.Append(nil, spec)))
			r.str(fmt.Sprintf("%"+spec, a))
		})
	}).Check = func(x *Ctx, op *Op, r *Result) string {
		if s := noPanic(r); s != "" {
			return s
		}
		_, verb, ok := parseSpec(op.str(0))
		if !ok || !isFloatVerb(verb) || isSpecBits(op.dec(0)) {
			return ""
		}
		if r.S[0] != r.S[1] {
			return fmt.Sprintf("Decimal.Append(nil, %q) = %q but Sprintf(%q) = %q for %s", op.str(0), r.S[0], "%"+op.str(0), r.S[1], NumOf(op.dec(0)))
		}
		return ""
	}
}

func checkFormatFn(d D, verb byte, prec int, text string, what string) string {
	n := NumOf(d)
	if n.Class != ref.Finite {
		return ""
	}
	switch verb {
	case 'e', 'E', 'f', 'g', 'G':
	default:
		return ""
	}
	if prec < 0 {
		if prec != -1 {
			return "" // only -1 is documented
		}
		return checkShortest(d, text, verb)
	}
	want := string(ref.AppendNum(nil, n, verb, prec))
	if text != want {
		return fmt.Sprintf("%s(%s, %q, %d) = %q, reference %q", what, n, verb, prec, text, want)
	}
	return ""
}
