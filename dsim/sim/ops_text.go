package sim

import (
	"bufio"
	"encoding/json"
	"encoding/xml"
	"errors"
	"flag"
	"fmt"
	"io"
	"strings"
	"testing/iotest"
	"unicode/utf8"

	"dsim/ref"

	"github.com/woodsbury/decimal128"
)

// ---------- C05: parsing ----------

// judgeParse compares the outcome of a parsing entry point with the
// reference reading of the text. strict: the error class is part of the
// contract (direct entry points); otherwise any error counts as a rejection.
func judgeParse(text string, lit ref.Literal, mode uint8, err error, hasVal bool, got D, strict bool) string {
	cls := ErrClass(err)
	q := fmt.Sprintf("%.80q", text)
	if lit.Status == ref.LitInvalid {
		if err == nil {
			return fmt.Sprintf("%s is not a well-formed literal but was accepted as %s", q, NumOf(got))
		}
		if strict && cls != "syntax" {
			return fmt.Sprintf("%s rejected with error class %s (%v), want one matching strconv.ErrSyntax", q, cls, err)
		}
		return ""
	}
	rounded := lit.Value(int(mode))
	if err != nil {
		if rounded.Overflow && cls == "range" {
			if hasVal {
				g := NumOf(got)
				if g.Class != ref.Inf || g.Neg != lit.Neg {
					return fmt.Sprintf("%s overflows: value returned with the range error is %s", q, g)
				}
			}
			return ""
		}
		if lit.Status == ref.LitOptional && (cls == "syntax" || !strict) {
			return ""
		}
		return fmt.Sprintf("%s is well-formed but was rejected: %s (%v)", q, cls, err)
	}
	g := NumOf(got)
	if rounded.Overflow {
		// the statement demands +-Inf with a range error when the value rounds
		// above the largest finite Decimal; under a mode directed towards zero
		// it rounds to the largest finite value instead
		if rounded.N.Class == ref.Finite && ref.SameValue(g, rounded.N) {
			return ""
		}
		return fmt.Sprintf("%s exceeds the largest Decimal but was accepted without error as %s", q, g)
	}
	if ref.SameValue(g, rounded.N) {
		return ""
	}
	if rounded.Underflow && mode >= 2 {
		// "magnitudes too small give signed zero": under directed modes the
		// statement is not specific about the last subnormal step
		for m := 0; m < 6; m++ {
			if ref.SameValue(g, lit.Value(m).N) {
				return ""
			}
		}
	}
	return fmt.Sprintf("%s parsed as %s, reference (mode %d) %s", q, g, mode, rounded.N)
}

func init() {
	// Parse: B[0] = text.
	reg("Parse", func(x *Ctx, op *Op, r *Result) {
		s := string(op.bytes(0))
		x.call(r, func() { d, err := decimal128.Parse(s); r.dec(d); r.err(err) })
	}).Check = func(x *Ctx, op *Op, r *Result) string {
		if s := noPanic(r); s != "" {
			return s
		}
		s := string(op.bytes(0))
		return judgeParse(s, ref.ParseLiteral(s, ref.LitOpts{}), x.mode, r.Err, true, r.D[0], true)
	}

	d := reg("MustParse", func(x *Ctx, op *Op, r *Result) {
		s := string(op.bytes(0))
		x.call(r, func() { r.dec(decimal128.MustParse(s)) })
	})
	d.PanicOK = func(x *Ctx, op *Op, r *Result) bool {
		// documented: panics if the string cannot be parsed, i.e. exactly when Parse errs
		s := string(op.bytes(0))
		lit := ref.ParseLiteral(s, ref.LitOpts{})
		if lit.Status != ref.LitValid {
			return true
		}
		return lit.Value(int(x.mode)).Overflow
	}
	d.Check = func(x *Ctx, op *Op, r *Result) string {
		s := string(op.bytes(0))
		lit := ref.ParseLiteral(s, ref.LitOpts{})
		if r.HasPanic {
			if r.Budget {
				return "step budget exceeded"
			}
			if lit.Status == ref.LitValid && !lit.Value(int(x.mode)).Overflow {
				return fmt.Sprintf("MustParse(%.80q) panicked on a well-formed literal: %s", s, r.Panic)
			}
			if strings.HasPrefix(r.Panic, "runtime error") {
				return "MustParse: " + r.Panic
			}
			return ""
		}
		return judgeParse(s, lit, x.mode, nil, true, r.D[0], true)
	}

	// UnmarshalText: B[0] = text, I[0] = receiver slot.
	reg("UnmarshalText", func(x *Ctx, op *Op, r *Result) {
		in, chk := x.input(op.bytes(0))
		d := x.recv(op.int(0))
		x.call(r, func() { err := d.UnmarshalText(in); r.err(err); r.dec(*d) })
		if v := chk(); v != "" {
			r.violation(v)
		}
	}).Check = func(x *Ctx, op *Op, r *Result) string {
		if s := noPanic(r); s != "" {
			return s
		}
		s := string(op.bytes(0))
		return judgeParse(s, ref.ParseLiteral(s, ref.LitOpts{}), x.mode, r.Err, r.Err == nil, r.D[0], true)
	}

	// Sscan: B[0] = input, I[0] = variant (0 Sscan, 1 Sscanln, 2 Sscanf with
	// S[0]), I[1] = receiver slot. The reference reads the first
	// space-delimited token.
	reg("Sscan", func(x *Ctx, op *Op, r *Result) {
		in := string(op.bytes(0))
		d := x.recv(op.int(1))
		x.call(r, func() {
			var n int
			var err error
			switch op.int(0) {
			case 0:
				n, err = fmt.Sscan(in, d)
			case 1:
				n, err = fmt.Sscanln(in, d)
			default:
				n, err = fmt.Sscanf(in, op.str(0), d)
			}
			r.int(int64(n))
			r.err(err)
			r.dec(*d)
		})
	}).Check = func(x *Ctx, op *Op, r *Result) string {
		if s := noPanic(r); s != "" {
			return s
		}
		width := -1
		if op.int(0) == 2 {
			ok, w := scanVerb(op.str(0))
			if !ok {
				if r.Err == nil {
					return fmt.Sprintf("Sscanf with format %q succeeded", op.str(0))
				}
				return ""
			}
			width = w
		}
		tok := firstToken(string(op.bytes(0)))
		if width == 0 {
			return "" // fmt treats an explicit zero width in its own way: not judged
		}
		if width > 0 && width < len(tok) {
			// package fmt hands Scan at most width runes of the token
			if !scanAlphabet(tok) {
				return ""
			}
			tok = tok[:width]
		}
		if tok != "" && !scanAlphabet(tok) {
			return judgeScan(tok, x.mode, r.Err, r.D[0], op.int(0) == 0 && width < 0)
		}
		if !scanAlphabet(tok) {
			return "" // the token is cut by fmt's rules, not by white space: not judged
		}
		if tok == "" {
			if r.Err == nil {
				return "scan of empty input succeeded"
			}
			return ""
		}
		if op.int(0) == 1 && strings.TrimLeft(string(op.bytes(0)), " ") != tok {
			// Sscanln complains about what follows the token; only a clean value is judged
			if r.Err != nil {
				return ""
			}
		}
		lit := ref.ParseLiteral(tok, ref.LitOpts{NoLongInf: true})
		return judgeParse(tok, lit, x.mode, r.Err, r.Err == nil, r.D[0], false)
	}
}

// scanVerbOK reports whether a Sscanf format is a single supported verb
// directive ("%v", "%e", ...); a width ("%5g") is not accepted here.
func scanVerbOK(f string) bool {
	ok, w := scanVerb(f)
	return ok && w < 0
}

// scanVerb parses "%[width]verb" with a supported verb; width -1 if absent.
func scanVerb(f string) (bool, int) {
	if len(f) < 2 || f[0] != '%' {
		return false, -1
	}
	switch f[len(f)-1] {
	case 'e', 'E', 'f', 'F', 'g', 'G', 'v':
	default:
		return false, -1
	}
	w := -1
	for _, c := range f[1 : len(f)-1] {
		if c < '0' || c > '9' {
			return false, -1
		}
		if w < 0 {
			w = 0
		}
		w = w*10 + int(c-'0')
		if w > 1<<20 {
			return false, -1
		}
	}
	return true, w
}

func firstToken(s string) string {
	s = strings.TrimLeft(s, " ")
	if i := strings.IndexByte(s, ' '); i >= 0 {
		s = s[:i]
	}
	return s
}

// scanAlphabet reports whether tok consists only of characters Scan's token
// rule consumes, or is a (signed) nan/inf in any case.
func scanAlphabet(tok string) bool {
	t := strings.ToLower(strings.TrimLeft(tok, "+-"))
	if (t == "nan" || t == "inf") && len(tok)-len(t) <= 1 {
		return true
	}
	for i := 0; i < len(tok); i++ {
		c := tok[i]
		switch {
		case c >= '0' && c <= '9', c == '.', c == 'e', c == 'E', c == '-', c == '+', c == '_':
		default:
			return false
		}
	}
	return true
}

// scanModel describes what Decimal.Scan must do with the first
// white-space delimited token of its input, following its documented
// behaviour: an optional sign; then either the three letters of Inf or NaN
// (any case, nothing else) or the longest run of characters out of
// [0-9 . e E + - _], which must be a well-formed numeral. text is the part of
// the token that Scan consumes as the literal; mustErr says that no reading
// of the token as a Decimal exists.
func scanModel(tok string) (text string, lit ref.Literal, mustErr bool) {
	s := tok
	sign := ""
	if s != "" && (s[0] == '+' || s[0] == '-') {
		sign, s = s[:1], s[1:]
	}
	if s == "" {
		return tok, ref.Literal{}, true
	}
	r1, n1 := utf8.DecodeRuneInString(s)
	if r1 == 'i' || r1 == 'I' || r1 == 'n' || r1 == 'N' {
		r2, n2 := utf8.DecodeRuneInString(s[n1:])
		r3, n3 := utf8.DecodeRuneInString(s[n1+n2:])
		if n2 == 0 || n3 == 0 {
			return tok, ref.Literal{}, true
		}
		word := strings.ToLower(string([]rune{r1, r2, r3}))
		if (word != "inf" && word != "nan") || r2 >= utf8.RuneSelf || r3 >= utf8.RuneSelf {
			return tok, ref.Literal{}, true
		}
		text = sign + s[:n1+n2+n3]
		return text, ref.ParseLiteral(text, ref.LitOpts{NoLongInf: true}), false
	}
	i := 0
	for i < len(s) {
		c := s[i]
		if c >= '0' && c <= '9' || c == '.' || c == 'e' || c == 'E' || c == '-' || c == '+' || c == '_' {
			i++
			continue
		}
		break
	}
	if i == 0 {
		return tok, ref.Literal{}, true
	}
	text = sign + s[:i]
	return text, ref.ParseLiteral(text, ref.LitOpts{NoLongInf: true, NoSpecial: true}), false
}

// judgeScan judges one call of Scan on a token that is not purely made of
// Scan's own alphabet (see scanModel): an error return is always acceptable
// (what follows the consumed part is none of Scan's business, and package fmt
// may complain about it), a value must be the reference value.
func judgeScan(tok string, mode uint8, err error, got D, strictFollow bool) string {
	text, lit, mustErr := scanModel(tok)
	if err != nil {
		// strictFollow: nobody but Scan itself can have produced the error (a
		// direct call, or Sscan with one operand, which does not mind unread
		// input). A complete well-formed numeral followed by a character
		// outside Scan's alphabet must then be returned: what follows the
		// numeral is not Scan's business.
		if strictFollow && !mustErr && len(text) < len(tok) && lit.Status != ref.LitInvalid && text != "" && !isWordStart(text) {
			if s := judgeParse(text, lit, mode, err, false, got, false); s != "" {
				return fmt.Sprintf("%s (Scan was given %.60q: the numeral is followed by %q)", s, tok, tok[len(text):])
			}
		}
		return ""
	}
	if mustErr {
		return fmt.Sprintf("Scan accepted %.60q as %s; it is neither a numeral nor Inf/NaN", tok, NumOf(got))
	}
	return judgeParse(text, lit, mode, nil, true, got, false)
}

// isWordStart reports whether a scanned prefix is a special word rather than
// a numeral.
func isWordStart(text string) bool {
	t := strings.TrimLeft(text, "+-")
	return t != "" && (t[0] == 'i' || t[0] == 'I' || t[0] == 'n' || t[0] == 'N')
}

// ---------- C06: shortest text ----------

// checkShortest judges a default (precision -1) rendering of a finite or
// special d. family: 'g' (String, MarshalText, %v, 'g'/'G'), 'e'/'E', 'f'.
func checkShortest(d D, text string, family byte) string {
	n := NumOf(d)
	if n.Class != ref.Finite {
		if want := ref.Shortest(n); text != want {
			return fmt.Sprintf("special value %s printed as %q, want %q", n, text, want)
		}
		return ""
	}
	switch family {
	case 'g', 'G':
		want := string(ref.AppendNum(nil, n, family, -1))
		if text != want {
			return fmt.Sprintf("%s printed as %q, shortest exact %%v-style numeral is %q", n, text, want)
		}
		return ""
	}
	// 'e' and 'f': exact value, same sign, no superfluous digits
	got, ok := ref.ParseNumeral(text)
	if !ok {
		return fmt.Sprintf("%s printed as %q, which is not a numeral", n, text)
	}
	if !ref.SameValue(got, n) {
		return fmt.Sprintf("%s printed as %q, which denotes %s", n, text, got)
	}
	want := string(ref.AppendNum(nil, n, family, -1))
	if len(text) > len(want) {
		return fmt.Sprintf("%s printed as %q has superfluous digits (shortest is %q)", n, text, want)
	}
	return ""
}

func checkRoundTrip(d D, back D, how string) string {
	n, b := NumOf(d), NumOf(back)
	if n.Class == ref.NaN {
		if b.Class != ref.NaN {
			return fmt.Sprintf("NaN came back as %s through %s", b, how)
		}
		return ""
	}
	if !ref.SameValue(n, b) {
		return fmt.Sprintf("%s (%s) came back as %s through %s", n, Hex(d), b, how)
	}
	return ""
}

// textProducers render a Decimal in its default form.
var textProducers = []struct {
	name   string
	family byte
	f      func(d D) string
}{
	{"String", 'g', func(d D) string { return d.String() }},
	{"MarshalText", 'g', func(d D) string { b, _ := d.MarshalText(); return string(b) }},
	{"Sprintf(%v)", 'g', func(d D) string { return fmt.Sprintf("%v", d) }},
	{"Sprint", 'g', func(d D) string { return fmt.Sprint(d) }},
	{"Format(g,-1)", 'g', func(d D) string { return decimal128.Format(d, 'g', -1) }},
	{"Format(e,-1)", 'e', func(d D) string { return decimal128.Format(d, 'e', -1) }},
	{"Format(f,-1)", 'f', func(d D) string { return decimal128.Format(d, 'f', -1) }},
	{"Append(G,-1)", 'G', func(d D) string { return string(decimal128.Append(nil, d, 'G', -1)) }},
	{"Append(E,-1)", 'E', func(d D) string { return string(decimal128.Append(nil, d, 'E', -1)) }},
	{"Decimal.Append(v)", 'g', func(d D) string { return string(d.Append(nil, "v")) }},
	{"Decimal.Append(g)", 'g', func(d D) string { return string(d.Append(nil, "g")) }},
	{"Sprintf(%g)", 'g', func(d D) string { return fmt.Sprintf("%g", d) }},
	{"Sprintf(%G)", 'G', func(d D) string { return fmt.Sprintf("%G", d) }},
	{"Sprintf([]%v)", 'g', func(d D) string { s := fmt.Sprintf("%v", []D{d}); return s[1 : len(s)-1] }},
	{"Sprintf(struct%v)", 'g', func(d D) string { s := fmt.Sprintf("%v", struct{ X D }{d}); return s[1 : len(s)-1] }},
	{"Sprintln", 'g', func(d D) string { s := fmt.Sprintln(d); return s[:len(s)-1] }},
	{"Sprint(d,d)", 'g', func(d D) string { s := fmt.Sprint(d, d); return s[:len(s)/2] }},
	{"Sprintf(map%v)", 'g', func(d D) string { s := fmt.Sprintf("%v", map[int]D{1: d}); return s[len("map[1:") : len(s)-1] }},
	// other real peers of the text form: fmt.Append, a pointer to the value,
	// encoding/xml (attribute and character data go through MarshalText) and
	// encoding/json map keys (MarshalText as well)
	{"fmt.Append", 'g', func(d D) string { return string(fmt.Append(nil, d)) }},
	{"Sprint(&d)", 'g', func(d D) string { return fmt.Sprint(&d) }},
	{"xml attr", 'g', func(d D) string {
		b, err := xml.Marshal(xmlAttrDoc{A: d})
		return cutBetween(string(b), err, `a="`, `"`)
	}},
	{"xml chardata", 'g', func(d D) string {
		b, err := xml.Marshal(xmlElemDoc{A: d})
		return cutBetween(string(b), err, "<A>", "</A>")
	}},
	{"json map key", 'g', func(d D) string {
		b, err := json.Marshal(map[D]int{d: 1})
		return cutBetween(string(b), err, `{"`, `":1}`)
	}},
}

type xmlAttrDoc struct {
	XMLName xml.Name `xml:"r"`
	A       D        `xml:"a,attr"`
}

type xmlElemDoc struct {
	XMLName xml.Name `xml:"r"`
	A       D
}

// cutBetween returns the part of s between the first pre and the following
// post; a peer that failed or produced something else shows up as its error
// text or its whole output (which no reference rendering equals).
func cutBetween(s string, err error, pre, post string) string {
	if err != nil {
		return "peer failed: " + err.Error()
	}
	i := strings.Index(s, pre)
	if i < 0 {
		return s
	}
	rest := s[i+len(pre):]
	j := strings.Index(rest, post)
	if j < 0 {
		return s
	}
	return rest[:j]
}

// textConsumers read a numeral back.
var textConsumers = []struct {
	name string
	f    func(s string) (D, error)
}{
	{"Parse", decimal128.Parse},
	{"UnmarshalText", func(s string) (D, error) { var d D; err := d.UnmarshalText([]byte(s)); return d, err }},
	{"Sscan", func(s string) (D, error) { var d D; _, err := fmt.Sscan(s, &d); return d, err }},
	{"Sscanf(%v)", func(s string) (D, error) { var d D; _, err := fmt.Sscanf(s, "%v", &d); return d, err }},
	{"Sscanln", func(s string) (D, error) { var d D; _, err := fmt.Sscanln(s, &d); return d, err }},
	// the standard library's own misbehaving readers under fmt.Fscan
	{"Fscan(OneByteReader)", func(s string) (D, error) {
		var d D
		_, err := fmt.Fscan(iotest.OneByteReader(strings.NewReader(s)), &d)
		return d, err
	}},
	{"Fscan(DataErrReader)", func(s string) (D, error) {
		var d D
		_, err := fmt.Fscan(iotest.DataErrReader(strings.NewReader(s)), &d)
		return d, err
	}},
	{"Fscan(bufio(HalfReader))", func(s string) (D, error) {
		var d D
		_, err := fmt.Fscan(bufio.NewReaderSize(iotest.HalfReader(strings.NewReader(s)), 16), &d)
		return d, err
	}},
	// other real peers of UnmarshalText
	{"xml attr", func(s string) (D, error) {
		doc := xmlAttrDoc{A: staleDecimal()}
		err := xml.Unmarshal([]byte(`<r a="`+s+`"></r>`), &doc)
		return doc.A, err
	}},
	{"xml chardata", func(s string) (D, error) {
		doc := xmlElemDoc{A: staleDecimal()}
		err := xml.Unmarshal([]byte("<r><A>"+s+"</A></r>"), &doc)
		return doc.A, err
	}},
	{"flag.TextVar", func(s string) (D, error) {
		d := staleDecimal()
		fs := flag.NewFlagSet("x", flag.ContinueOnError)
		fs.SetOutput(io.Discard)
		fs.TextVar(&d, "v", D{}, "")
		err := fs.Parse([]string{"-v=" + s})
		return d, err
	}},
}

// staleDecimal is what a destination holds before a peer decodes into it.
func staleDecimal() D { return decimal128.New(-987654321, 77) }

func init() {
	reg("String", func(x *Ctx, op *Op, r *Result) {
		a := op.dec(0)
		x.call(r, func() { r.keepString("String", a.String()) })
	}).Check = func(x *Ctx, op *Op, r *Result) string {
		if s := noPanic(r); s != "" {
			return s
		}
		return checkShortest(op.dec(0), r.S[0], 'g')
	}
	reg("MarshalText", func(x *Ctx, op *Op, r *Result) {
		a := op.dec(0)
		x.call(r, func() { b, err := a.MarshalText(); r.keepBytes("MarshalText", b); r.err(err) })
	}).Check = func(x *Ctx, op *Op, r *Result) string {
		if s := noPanic(r); s != "" {
			return s
		}
		if r.Err != nil {
			return "MarshalText failed: " + r.Err.Error()
		}
		return checkShortest(op.dec(0), r.S[0], 'g')
	}

	// TextRT: D[0], I[0] = producer, I[1] = consumer. Renders, reads back.
	reg("TextRT", func(x *Ctx, op *Op, r *Result) {
		a := op.dec(0)
		p := textProducers[int(op.int(0))%len(textProducers)]
		c := textConsumers[int(op.int(1))%len(textConsumers)]
		x.call(r, func() {
			s := p.f(a)
			r.str(s)
			back, err := c.f(s)
			r.err(err)
			r.dec(back)
		})
	}).Check = func(x *Ctx, op *Op, r *Result) string {
		if s := noPanic(r); s != "" {
			return s
		}
		a := op.dec(0)
		p := textProducers[int(op.int(0))%len(textProducers)]
		c := textConsumers[int(op.int(1))%len(textConsumers)]
		if s := checkShortest(a, r.S[0], p.family); s != "" {
			return p.name + ": " + s
		}
		if r.Err != nil {
			return fmt.Sprintf("%s of %q (from %s of %s) failed: %v", c.name, r.S[0], p.name, NumOf(a), r.Err)
		}
		return checkRoundTrip(a, r.D[0], p.name+" -> "+c.name)
	}
}

// simScanState is a simulator-owned fmt.ScanState over a byte string. A read
// error can be planned at a byte offset; like an io.Reader that returns
// (n > 0, err), its Token then returns the runes read so far together with
// the error.
type simScanState struct {
	data   []byte
	pos    int
	last   int
	errAt  int // offset at which the next read fails once (-1: never)
	errK   int // which error
	fired  bool
	tokens int
	// The interface says nothing about how often Token evaluates its
	// predicate or how many runes can be pushed back. peek: extra evaluations
	// of the predicate per rune (a peer that looks before it accepts, or
	// matches again after refilling its window); deep: UnreadRune goes back
	// as many runes as were read (fmt's own goes back one, and so do
	// strings.Reader and bufio.Reader).
	peek  int
	deep  bool
	sizes []int
	// volatile: Token returns a window of storage the peer owns and
	// overwrites on the next ReadRune, SkipSpace or Token ("the returned slice
	// points to shared data that may be overwritten by the next call to Read,
	// ReadRune, or Token", says the interface)
	volatile bool
	tokbuf   []byte
}

// clobber overwrites the storage of the last token (volatile peers).
func (s *simScanState) clobber() {
	for i := range s.tokbuf {
		s.tokbuf[i] = '9'
	}
}

// simScanStatePeek is the same peer for callers that look for more than the
// six methods of the interface: a ScanState that embeds a *bufio.Reader also
// has Peek and Discard, with bufio's behaviour for a small buffer (a short
// window and bufio.ErrBufferFull when more is asked for than the buffer
// holds, io.EOF only at the end of the input).
type simScanStatePeek struct {
	*simScanState
	size int
}

func (s simScanStatePeek) Peek(n int) ([]byte, error) {
	if n < 0 {
		return nil, bufio.ErrNegativeCount
	}
	avail := len(s.data) - s.pos
	if s.errAt >= s.pos && !s.fired && s.errAt-s.pos < avail {
		avail = s.errAt - s.pos
	}
	var err error
	k := n
	if k > s.size {
		k, err = s.size, bufio.ErrBufferFull
	}
	if k > avail {
		k = avail
		if s.pos+k >= len(s.data) {
			err = io.EOF
		} else if err == nil {
			err = InjectedErr(s.errK)
		}
	}
	return s.data[s.pos : s.pos+k : s.pos+k], err
}

func (s simScanStatePeek) Discard(n int) (int, error) {
	b, err := s.Peek(n)
	s.pos += len(b)
	s.last = 0
	s.sizes = nil
	if len(b) == n {
		err = nil
	}
	return len(b), err
}

func (s *simScanState) ReadRune() (rune, int, error) {
	if s.volatile {
		s.clobber()
	}
	if s.pos == s.errAt && !s.fired {
		s.fired = true
		return 0, 0, InjectedErr(s.errK)
	}
	if s.pos >= len(s.data) {
		s.last = 0
		return 0, 0, io.EOF
	}
	r, n := utf8.DecodeRune(s.data[s.pos:])
	s.pos += n
	s.last = n
	if s.deep {
		s.sizes = append(s.sizes, n)
	}
	return r, n, nil
}

func (s *simScanState) UnreadRune() error {
	if s.deep {
		if len(s.sizes) == 0 {
			return errors.New("simScanState: nothing to unread")
		}
		s.pos -= s.sizes[len(s.sizes)-1]
		s.sizes = s.sizes[:len(s.sizes)-1]
		s.last = 0
		return nil
	}
	if s.last == 0 {
		return errors.New("simScanState: nothing to unread")
	}
	s.pos -= s.last
	s.last = 0
	return nil
}

func (s *simScanState) SkipSpace() {
	for s.pos < len(s.data) && s.pos != s.errAt && (s.data[s.pos] == ' ' || s.data[s.pos] == '\t' || s.data[s.pos] == '\n') {
		s.pos++
	}
	s.last = 0
}

func (s *simScanState) Token(skipSpace bool, f func(rune) bool) ([]byte, error) {
	tok, err := s.token(skipSpace, f)
	if s.volatile {
		// (the runes were read before the window was filled)
		s.tokbuf = append(s.tokbuf[:0], tok...)
		return s.tokbuf[:len(tok):len(tok)], err
	}
	return tok, err
}

func (s *simScanState) token(skipSpace bool, f func(rune) bool) ([]byte, error) {
	s.tokens++
	if skipSpace {
		s.SkipSpace()
	}
	if f == nil {
		f = func(r rune) bool { return r != ' ' && r != '\t' && r != '\n' }
	}
	var tok []byte
	for {
		r, n, err := s.ReadRune()
		if err == io.EOF {
			return tok, nil
		}
		if err != nil {
			return tok, err
		}
		ok := f(r)
		for i := 0; i < s.peek; i++ {
			ok = f(r) // the same question again: the answer must be the same
		}
		if !ok {
			s.UnreadRune()
			return tok, nil
		}
		tok = append(tok, s.data[s.pos-n:s.pos]...)
	}
}

func (s *simScanState) Width() (int, bool) { return 0, false }

func (s *simScanState) Read([]byte) (int, error) {
	return 0, errors.New("simScanState: Read is not for Scan methods")
}

func init() {
	// ScanState: B[0] = input, I[0] = verb, I[1] = error offset (-1 none),
	// I[2] = receiver slot. Calls Decimal.Scan directly with a
	// simulator-owned fmt.ScanState.
	reg("ScanState", func(x *Ctx, op *Op, r *Result) {
		st := &simScanState{data: op.bytes(0), errAt: int(op.int(1)), errK: int(op.int(3)), peek: int(op.int(4) & 3), deep: op.int(4)&4 != 0, volatile: op.int(4)&8 != 0}
		var peer fmt.ScanState = st
		if op.int(4)&16 != 0 {
			peer = simScanStatePeek{st, []int{16, 32, 64}[int(op.int(4)>>5)%3]}
		}
		d := x.recv(op.int(2))
		x.call(r, func() {
			err := d.Scan(peer, rune(op.int(0)))
			r.err(err)
			r.dec(*d)
			r.bool(st.fired)
		})
	}).Check = func(x *Ctx, op *Op, r *Result) string {
		if s := noPanic(r); s != "" {
			return s
		}
		switch rune(op.int(0)) {
		case 'e', 'E', 'f', 'F', 'g', 'G', 'v':
		default:
			if r.Err == nil {
				return fmt.Sprintf("Scan with verb %q succeeded", rune(op.int(0)))
			}
			return ""
		}
		in := strings.TrimLeft(string(op.bytes(0)), " \t\n")
		tok := in
		if i := strings.IndexAny(tok, " \t\n"); i >= 0 {
			tok = tok[:i]
		}
		if tok != "" && !scanAlphabet(tok) {
			if r.B[0] {
				return "" // a read error was injected: not judged for such tokens
			}
			return judgeScan(tok, x.mode, r.Err, r.D[0], true)
		}
		if tok == "" {
			if r.Err == nil {
				return "Scan of empty input succeeded"
			}
			return ""
		}
		if r.Err != nil && r.B[0] {
			return "" // a read error was injected and an error came back
		}
		lit := ref.ParseLiteral(tok, ref.LitOpts{NoLongInf: true})
		s := judgeParse(tok, lit, x.mode, r.Err, r.Err == nil, r.D[0], false)
		if s != "" && r.B[0] {
			s += fmt.Sprintf(" (the ScanState reported a read error at offset %d)", op.int(1))
		}
		return s
	}
}
