package sim

import (
	"encoding/hex"
	"fmt"
	"math/big"
	"unsafe"

	"dsim/ref"

	"github.com/woodsbury/decimal128"
)

// D is the type under test.
type D = decimal128.Decimal

// The harness reads and builds Decimals through their memory image, not
// through the library's own (instrumented, possibly changed) codecs. The
// layout {lo, hi uint64} is verified at start-up by CheckLayout.

// Bits returns the two halves of d.
func Bits(d D) (hi, lo uint64) {
	p := (*[2]uint64)(unsafe.Pointer(&d))
	return p[1], p[0]
}

// FromBits builds a Decimal from its two halves.
func FromBits(hi, lo uint64) D {
	var d D
	p := (*[2]uint64)(unsafe.Pointer(&d))
	p[0], p[1] = lo, hi
	return d
}

// CheckLayout verifies the assumption behind Bits/FromBits.
func CheckLayout() error {
	if unsafe.Sizeof(D{}) != 16 {
		return fmt.Errorf("Decimal is %d bytes, want 16", unsafe.Sizeof(D{}))
	}
	hi, lo := uint64(0x3040000000000000), uint64(7)
	d := FromBits(hi, lo)
	b, err := d.MarshalBinary()
	if err != nil || len(b) != 16 {
		return fmt.Errorf("MarshalBinary: %v len %d", err, len(b))
	}
	want := fmt.Sprintf("%016x%016x", hi, lo)
	if hex.EncodeToString(b) != want {
		// layout changed, or MarshalBinary is broken: fall back to a second witness
		if d.String() != "7" {
			return fmt.Errorf("memory layout of Decimal is not {lo, hi}")
		}
	}
	return nil
}

// Hex renders d as 32 hex digits, hi first.
func Hex(d D) string {
	hi, lo := Bits(d)
	return fmt.Sprintf("%016x%016x", hi, lo)
}

// ParseHex is the inverse of Hex.
func ParseHex(s string) D {
	if len(s) != 32 {
		panic("sim: bad decimal hex " + s)
	}
	var hi, lo uint64
	if _, err := fmt.Sscanf(s[:16], "%x", &hi); err != nil {
		panic(err)
	}
	if _, err := fmt.Sscanf(s[16:], "%x", &lo); err != nil {
		panic(err)
	}
	return FromBits(hi, lo)
}

// NumOf decodes d with the reference BID decoder.
func NumOf(d D) ref.Num {
	hi, lo := Bits(d)
	return ref.Decode(hi, lo)
}

// DecOf encodes a reference Num (must be a member of the format).
func DecOf(n ref.Num) D {
	hi, lo, ok := ref.Encode(n)
	if !ok {
		panic("sim: DecOf: not a member: " + n.String())
	}
	return FromBits(hi, lo)
}

func unhex(s string) []byte {
	b, err := hex.DecodeString(s)
	if err != nil {
		panic("sim: bad hex: " + err.Error())
	}
	return b
}

func parseBigInt(s string) *big.Int {
	i, ok := new(big.Int).SetString(s, 16)
	if !ok {
		panic("sim: bad big.Int " + s)
	}
	return i
}

func parseRat(s string) *big.Rat {
	r, ok := new(big.Rat).SetString(s)
	if !ok {
		panic("sim: bad big.Rat " + s)
	}
	return r
}

func parseFloat(f FloatSpec) *big.Float {
	x := new(big.Float).SetPrec(f.Prec).SetMode(big.RoundingMode(f.Mode))
	if f.Text == "" {
		return x
	}
	if _, _, err := x.Parse(f.Text, 0); err != nil {
		panic("sim: bad big.Float " + f.Text + ": " + err.Error())
	}
	return x
}

func floatText(f *big.Float) string {
	return fmt.Sprintf("%s/prec=%d/mode=%d/acc=%d", f.Text('p', 0), f.Prec(), f.Mode(), f.Acc())
}
