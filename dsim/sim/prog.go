package sim

// Program is one fully explicit simulated execution: what every simulated
// caller does, with which operands, on which caller-owned objects, how the
// scheduler interleaves them and which faults the simulated peers inject.
// Executing a Program draws nothing from a PRNG and reads no clock, so a
// Program is also the replay file format.
type Program struct {
	Profile string  `json:"profile"`
	Seed    uint64  `json:"seed"`
	Run     uint64  `json:"run"`
	Pool    Pool    `json:"pool"`
	Epochs  []Epoch `json:"epochs"`
	// Cold: the first epoch's concurrent pass runs before its sequential
	// reference pass, so that the callers meet whatever the library builds
	// lazily in its untouched state. Only meaningful for the first program a
	// process executes (replays run in a fresh process).
	Cold bool `json:"cold,omitempty"`
	// HashKey: the value of VERIF_HASHKEY the process that generated the
	// program ran under (seeds of the stand-ins for hash/maphash and
	// math/rand are a function of it); 0 for trees that draw no randomness.
	HashKey uint64 `json:"hashkey,omitempty"`
	// ClockSeed: non-zero for trees that read the clock. The logical clock
	// advances by one microsecond per statement, and at the start of every
	// operation by a jump that is a function of (ClockSeed, epoch, task,
	// operation index): mostly nothing, sometimes milliseconds to days (a
	// caller may be descheduled for any length of time; never backwards).
	ClockSeed uint64 `json:"clockseed,omitempty"`
}

// ClockJump is the forward jump of the logical clock (nanoseconds) at the
// start of operation oi of task ti in epoch ei.
func (p *Program) ClockJump(ei, ti, oi int) int64 {
	if p.ClockSeed == 0 {
		return 0
	}
	h := p.ClockSeed + uint64(ei)*0x9e3779b97f4a7c15 + uint64(ti)*0xbf58476d1ce4e5b9 + uint64(oi)*0x94d049bb133111eb
	h ^= h >> 30
	h *= 0xbf58476d1ce4e5b9
	h ^= h >> 27
	h *= 0x94d049bb133111eb
	h ^= h >> 31
	switch h % 16 {
	case 0:
		return int64(h>>8%1000) * 1_000_000 // up to a second
	case 1:
		return int64(h>>8%120) * 1_000_000_000 // up to two minutes
	case 2:
		return int64(h>>8%48) * 3_600_000_000_000 // up to two days
	case 3:
		return int64(h >> 8 % 100_000) // up to 100 microseconds
	}
	return 0
}

// Pool describes by-reference inputs that several tasks share.
type Pool struct {
	Ints   []string    `json:"ints,omitempty"`   // big.Int, base 16
	Rats   []string    `json:"rats,omitempty"`   // big.Rat "a/b", base 10
	Floats []FloatSpec `json:"floats,omitempty"` // big.Float
	Bytes  []string    `json:"bytes,omitempty"`  // hex
}

// FloatSpec describes a big.Float.
type FloatSpec struct {
	Prec uint   `json:"prec"`
	Mode uint8  `json:"mode"`
	Text string `json:"text"` // %x style text understood by big.Float.Parse
}

// Epoch is a phase between two barriers. DefaultRoundingMode is set by the
// controller before the tasks of the epoch start and not written during it.
type Epoch struct {
	Mode    uint8        `json:"mode"`
	First   int          `json:"first"`
	Streams []StreamSpec `json:"streams,omitempty"`
	Tasks   []TaskProg   `json:"tasks"`
}

// TaskProg is the program of one simulated caller goroutine.
type TaskProg struct {
	Priv PrivSpec `json:"priv"`
	Ops  []Op     `json:"ops"`
}

// PrivSpec describes the long-lived objects a task owns and reuses across
// calls, with their (stale) initial contents.
type PrivSpec struct {
	Bufs   []BufSpec   `json:"bufs,omitempty"`
	Ints   []string    `json:"ints,omitempty"`
	Rats   []string    `json:"rats,omitempty"`
	Floats []FloatSpec `json:"floats,omitempty"`
	Recv   []string    `json:"recv,omitempty"` // Decimals, hex
}

// BufSpec describes a caller-owned byte buffer: Data is its content
// (len(Data) bytes), Cap its capacity; the spare capacity is filled with Fill.
type BufSpec struct {
	Data string `json:"data"` // hex
	Cap  int    `json:"cap"`
	Fill uint8  `json:"fill"`
}

// Op is one call into the library (or one action of the simulated client).
type Op struct {
	Kind string    `json:"kind"`
	D    []string  `json:"d,omitempty"` // Decimals: 32 hex digits, hi then lo
	I    []int64   `json:"i,omitempty"`
	S    []string  `json:"s,omitempty"`
	B    []string  `json:"b,omitempty"` // byte strings, hex
	Pre  []Preempt `json:"pre,omitempty"`
	// PreLock: take the processor away right after the Step-th lock
	// acquisition of this operation (only meaningful for trees that lock).
	PreLock []Preempt `json:"prelock,omitempty"`
	After   *int      `json:"after,omitempty"`
}

// StreamSpec describes a simulated byte stream and its fault plan.
type StreamSpec struct {
	Cap    int     `json:"cap"`             // capacity (back-pressure); 0 = unbounded
	Shape  int     `json:"shape"`           // 0 io.Reader, 1 io.RuneScanner, 2 bufio.Reader
	BufSz  int     `json:"bufsz,omitempty"` // bufio size for shape 2
	Frags  []int   `json:"frags,omitempty"` // cyclic list of maximal fragment sizes for Read (empty = unlimited)
	WFrags []int   `json:"wfrags,omitempty"`
	Faults []Fault `json:"faults,omitempty"`
}

// Fault kinds.
const (
	FaultStall     = "stall"         // Arg times (0, nil) before the byte at Off is delivered
	FaultTransient = "err-transient" // one Read returns (0, errInjected) before the byte at Off
	FaultSticky    = "err-sticky"    // every Read fails once Off bytes were delivered
	FaultDataErr   = "data+err"      // the Read that delivers byte Off-1 also returns errInjected (transient)
	FaultEOFEarly  = "eof-early"     // the stream ends after Off bytes, whatever the producer writes
	FaultPanic     = "panic"         // ScanState level: the next read panics (used by the simulated ScanState only)
)

// Fault is one planned fault at a stream offset.
type Fault struct {
	Kind string `json:"kind"`
	Off  int    `json:"off"`
	Arg  int    `json:"arg,omitempty"`
}
