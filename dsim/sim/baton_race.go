//go:build race

package sim

import (
	"syscall"
	"unsafe"
)

// A baton is the OS pipe on which a parked task waits for its turn. Reads and
// writes are issued with syscall.Syscall directly: unlike channels, mutexes,
// atomics and even syscall.Read/Write, a raw system call creates no
// happens-before edge in the Go race detector, so accesses made by two
// simulated tasks stay unordered for the detector although the simulator runs
// them strictly one after the other.
type baton struct {
	r, w int
}

func newBaton() baton {
	var p [2]int
	if err := syscall.Pipe2(p[:], syscall.O_CLOEXEC); err != nil {
		panic("sim: pipe: " + err.Error())
	}
	return baton{r: p[0], w: p[1]}
}

func (b baton) close() {
	syscall.Close(b.r)
	syscall.Close(b.w)
}

//go:norace
func (b baton) signal() {
	var one [1]byte
	for {
		n, _, e := syscall.Syscall(syscall.SYS_WRITE, uintptr(b.w), uintptr(unsafe.Pointer(&one[0])), 1)
		if e == syscall.EINTR {
			continue
		}
		if e != 0 || n != 1 {
			panic("sim: baton write failed")
		}
		return
	}
}

//go:norace
func (b baton) wait() {
	var one [1]byte
	for {
		n, _, e := syscall.Syscall(syscall.SYS_READ, uintptr(b.r), uintptr(unsafe.Pointer(&one[0])), 1)
		if e == syscall.EINTR {
			continue
		}
		if e != 0 || n != 1 {
			panic("sim: baton read failed")
		}
		return
	}
}
