package sim

import (
	"encoding/json"
	"math/big"

	"dsim/ref"
)

// Clone deep-copies a Program.
func (p *Program) Clone() *Program {
	b, err := json.Marshal(p)
	if err != nil {
		panic(err)
	}
	q := new(Program)
	if err := json.Unmarshal(b, q); err != nil {
		panic(err)
	}
	return q
}

// Size is the measure minimisation decreases.
func (p *Program) Size() int {
	n := len(p.Pool.Ints) + len(p.Pool.Rats) + len(p.Pool.Floats)
	for _, ep := range p.Epochs {
		n += 50
		if ep.Mode != 0 {
			n++
		}
		for _, s := range ep.Streams {
			n += 3*len(s.Faults) + len(s.Frags) + len(s.WFrags)
			if s.Cap != 0 {
				n++
			}
			if s.Shape != 0 {
				n++
			}
		}
		for _, t := range ep.Tasks {
			n += 20
			if !blankPriv(&t.Priv) {
				n += 5
			}
			for _, op := range t.Ops {
				n += 10 + 2*len(op.Pre) + 2*len(op.PreLock)
				if op.After != nil {
					n++
				}
				for _, b := range op.B {
					n += len(b) / 8
				}
			}
		}
	}
	return n
}

// Minimise shrinks p while still(p') keeps returning true. It only removes or
// simplifies whole elements (epochs, tasks, operations, pre-emptions,
// hand-overs, faults, fragmentation, mode changes), so the result stays a
// readable schedule and fault trace. budget bounds the number of candidates.
func Minimise(p *Program, still func(*Program) bool, budget int) (*Program, int) {
	cur := p.Clone()
	tries := 0
	try := func(c *Program) bool {
		if tries >= budget {
			return false
		}
		tries++
		if still(c) {
			cur = c
			return true
		}
		return false
	}
	for pass := 0; pass < 6; pass++ {
		before := cur.Size()
		// epochs
		for ei := len(cur.Epochs) - 1; ei >= 0 && len(cur.Epochs) > 1; ei-- {
			c := cur.Clone()
			c.Epochs = append(c.Epochs[:ei], c.Epochs[ei+1:]...)
			try(c)
		}
		if cur.ClockSeed != 0 {
			c := cur.Clone()
			c.ClockSeed = 0
			try(c)
		}
		// schedule: drop everything, then pieces
		{
			c := cur.Clone()
			for ei := range c.Epochs {
				for ti := range c.Epochs[ei].Tasks {
					for oi := range c.Epochs[ei].Tasks[ti].Ops {
						c.Epochs[ei].Tasks[ti].Ops[oi].Pre = nil
						c.Epochs[ei].Tasks[ti].Ops[oi].PreLock = nil
						c.Epochs[ei].Tasks[ti].Ops[oi].After = nil
					}
				}
				c.Epochs[ei].First = 0
			}
			if c.Size() < cur.Size() {
				try(c)
			}
		}
		// faults and stream shape
		for ei := range cur.Epochs {
			for si := range cur.Epochs[ei].Streams {
				if s := cur.Epochs[ei].Streams[si]; len(s.Faults) > 0 {
					c := cur.Clone()
					c.Epochs[ei].Streams[si].Faults = nil
					try(c)
				}
				for fi := len(cur.Epochs[ei].Streams[si].Faults) - 1; fi >= 0; fi-- {
					c := cur.Clone()
					fs := c.Epochs[ei].Streams[si].Faults
					c.Epochs[ei].Streams[si].Faults = append(fs[:fi], fs[fi+1:]...)
					try(c)
				}
				if s := cur.Epochs[ei].Streams[si]; len(s.Frags) > 0 || len(s.WFrags) > 0 || s.Cap != 0 || s.Shape != 0 {
					c := cur.Clone()
					c.Epochs[ei].Streams[si].Frags = nil
					c.Epochs[ei].Streams[si].WFrags = nil
					c.Epochs[ei].Streams[si].Cap = 0
					if !try(c) {
						c = cur.Clone()
						c.Epochs[ei].Streams[si].WFrags = nil
						c.Epochs[ei].Streams[si].Cap = 0
						try(c)
					}
					if cur.Epochs[ei].Streams[si].Shape != 0 {
						c = cur.Clone()
						c.Epochs[ei].Streams[si].Shape = 0
						try(c)
					}
				}
			}
		}
		// tasks (only those that no stream ties to another task)
		for ei := range cur.Epochs {
			for ti := len(cur.Epochs[ei].Tasks) - 1; ti >= 0 && len(cur.Epochs[ei].Tasks) > 1; ti-- {
				c := cur.Clone()
				ts := c.Epochs[ei].Tasks
				c.Epochs[ei].Tasks = append(ts[:ti], ts[ti+1:]...)
				try(c)
			}
		}
		// operations: halves first, then single ones
		for ei := range cur.Epochs {
			for ti := range cur.Epochs[ei].Tasks {
				n := len(cur.Epochs[ei].Tasks[ti].Ops)
				if n > 3 {
					for _, half := range [][2]int{{0, n / 2}, {n / 2, n}} {
						c := cur.Clone()
						ops := c.Epochs[ei].Tasks[ti].Ops
						c.Epochs[ei].Tasks[ti].Ops = append(append([]Op{}, ops[:half[0]]...), ops[half[1]:]...)
						if try(c) {
							break
						}
					}
				}
				for oi := len(cur.Epochs[ei].Tasks[ti].Ops) - 1; oi >= 0; oi-- {
					if oi >= len(cur.Epochs[ei].Tasks[ti].Ops) {
						continue
					}
					c := cur.Clone()
					ops := c.Epochs[ei].Tasks[ti].Ops
					c.Epochs[ei].Tasks[ti].Ops = append(ops[:oi], ops[oi+1:]...)
					try(c)
				}
			}
		}
		// single pre-emptions and hand-overs
		for ei := range cur.Epochs {
			for ti := range cur.Epochs[ei].Tasks {
				for oi := range cur.Epochs[ei].Tasks[ti].Ops {
					for pi := len(cur.Epochs[ei].Tasks[ti].Ops[oi].Pre) - 1; pi >= 0; pi-- {
						c := cur.Clone()
						pre := c.Epochs[ei].Tasks[ti].Ops[oi].Pre
						c.Epochs[ei].Tasks[ti].Ops[oi].Pre = append(pre[:pi], pre[pi+1:]...)
						try(c)
					}
					if len(cur.Epochs[ei].Tasks[ti].Ops[oi].PreLock) > 0 {
						c := cur.Clone()
						c.Epochs[ei].Tasks[ti].Ops[oi].PreLock = nil
						try(c)
					}
					if cur.Epochs[ei].Tasks[ti].Ops[oi].After != nil {
						c := cur.Clone()
						c.Epochs[ei].Tasks[ti].Ops[oi].After = nil
						try(c)
					}
				}
			}
		}
		// mode, stale private state, shared pool
		for ei := range cur.Epochs {
			if cur.Epochs[ei].Mode != 0 {
				c := cur.Clone()
				c.Epochs[ei].Mode = 0
				try(c)
			}
			for ti := range cur.Epochs[ei].Tasks {
				if !blankPriv(&cur.Epochs[ei].Tasks[ti].Priv) {
					c := cur.Clone()
					setBlankPriv(&c.Epochs[ei].Tasks[ti].Priv)
					try(c)
				}
			}
		}
		if len(cur.Pool.Ints) > 1 || len(cur.Pool.Rats) > 1 || len(cur.Pool.Floats) > 1 {
			for _, keep := range []int{0, 1, 2} {
				c := cur.Clone()
				if keep < len(c.Pool.Ints) {
					c.Pool.Ints = c.Pool.Ints[keep : keep+1]
				}
				if keep < len(c.Pool.Rats) {
					c.Pool.Rats = c.Pool.Rats[keep : keep+1]
				}
				if keep < len(c.Pool.Floats) {
					c.Pool.Floats = c.Pool.Floats[keep : keep+1]
				}
				if try(c) {
					break
				}
			}
		}
		if cur.Size() >= before || tries >= budget {
			break
		}
	}
	// operands: a simpler Decimal where the violation does not care
	for ei := range cur.Epochs {
		for ti := range cur.Epochs[ei].Tasks {
			for oi := range cur.Epochs[ei].Tasks[ti].Ops {
				for di := range cur.Epochs[ei].Tasks[ti].Ops[oi].D {
					have := cur.Epochs[ei].Tasks[ti].Ops[oi].D[di]
					for _, simple := range simplerDecimals(have) {
						if simple == have || tries >= budget {
							continue
						}
						c := cur.Clone()
						c.Epochs[ei].Tasks[ti].Ops[oi].D[di] = simple
						if try(c) {
							break
						}
					}
				}
			}
		}
	}
	// byte-string operands (literals, documents, coefficients): shorter is
	// easier to read; delete chunks, then single bytes, while it still fails
	for ei := range cur.Epochs {
		for ti := range cur.Epochs[ei].Tasks {
			for oi := range cur.Epochs[ei].Tasks[ti].Ops {
				for bi := range cur.Epochs[ei].Tasks[ti].Ops[oi].B {
					for chunk := 64; chunk >= 1; chunk /= 4 {
						for pos := 0; ; {
							raw := unhex(cur.Epochs[ei].Tasks[ti].Ops[oi].B[bi])
							if pos+chunk > len(raw) || len(raw) <= 1 || tries >= budget {
								break
							}
							cand := append(append([]byte{}, raw[:pos]...), raw[pos+chunk:]...)
							c := cur.Clone()
							c.Epochs[ei].Tasks[ti].Ops[oi].B[bi] = hx(cand)
							if !try(c) {
								pos += chunk
							}
						}
					}
				}
			}
		}
	}
	return cur, tries
}

// simplerDecimals proposes replacements for an operand, simplest first: one,
// zero, and the same value with the shortest coefficient.
func simplerDecimals(h string) []string {
	out := []string{"30400000000000000000000000000001", "30400000000000000000000000000000"}
	if len(h) != 32 {
		return out
	}
	n := NumOf(ParseHex(h))
	if n.Class == ref.Finite && n.Coef.Sign() != 0 {
		c := new(big.Int).Set(n.Coef)
		e := n.Exp
		for e < ref.MaxExp {
			q, r := new(big.Int).QuoRem(c, big.NewInt(10), new(big.Int))
			if r.Sign() != 0 {
				break
			}
			c, e = q, e+1
		}
		out = append(out, Hex(DecOf(ref.Num{Neg: n.Neg, Coef: c, Exp: e})))
	}
	return out
}

func blankPriv(p *PrivSpec) bool {
	for _, b := range p.Bufs {
		if b.Data != "" || b.Cap != 0 {
			return false
		}
	}
	for _, i := range p.Ints {
		if i != "0" {
			return false
		}
	}
	for _, r := range p.Recv {
		if r != "00000000000000000000000000000000" {
			return false
		}
	}
	return true
}

// setBlankPriv replaces the stale contents of a task's long-lived objects by
// empty buffers and zeros (the number of slots stays the same).
func setBlankPriv(p *PrivSpec) {
	for i := range p.Bufs {
		p.Bufs[i] = BufSpec{}
	}
	for i := range p.Ints {
		p.Ints[i] = "0"
	}
	for i := range p.Rats {
		p.Rats[i] = "0"
	}
	for i := range p.Floats {
		p.Floats[i] = FloatSpec{Prec: 64}
	}
	for i := range p.Recv {
		p.Recv[i] = "00000000000000000000000000000000"
	}
}
