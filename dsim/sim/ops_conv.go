package sim

import (
	"fmt"
	"math"
	"math/big"

	"dsim/ref"

	"github.com/woodsbury/decimal128"
)

// C10: integer and rational conversions.

func wantDec(r *Result, want ref.Num, what string) string {
	if len(r.D) == 0 {
		return what + ": no Decimal returned"
	}
	got := NumOf(r.D[0])
	if !ref.SameValue(got, want) {
		return fmt.Sprintf("%s: got %s (%s), reference %s", what, got, Hex(r.D[0]), want)
	}
	return ""
}

func noPanic(r *Result) string {
	if r.HasPanic {
		return "panic: " + r.Panic
	}
	return ""
}

func specialPanicOK(x *Ctx, op *Op, r *Result) bool { return isSpecBits(op.dec(0)) }
func nanPanicOK(x *Ctx, op *Op, r *Result) bool     { return isNaNBits(op.dec(0)) }

func init() {
	exactInt := func(name string, f func(int64) D, conv func(int64) *big.Int) {
		reg(name, func(x *Ctx, op *Op, r *Result) {
			v := op.int(0)
			x.call(r, func() { r.dec(f(v)) })
		}).Check = func(x *Ctx, op *Op, r *Result) string {
			if s := noPanic(r); s != "" {
				return s
			}
			i := conv(op.int(0))
			want := ref.Num{Neg: i.Sign() < 0, Coef: new(big.Int).Abs(i)}
			return wantDec(r, want, name)
		}
	}
	exactInt("FromInt64", decimal128.FromInt64, func(v int64) *big.Int { return big.NewInt(v) })
	exactInt("FromInt32", func(v int64) D { return decimal128.FromInt32(int32(v)) }, func(v int64) *big.Int { return big.NewInt(int64(int32(v))) })
	exactInt("FromUint64", func(v int64) D { return decimal128.FromUint64(uint64(v)) }, func(v int64) *big.Int { return new(big.Int).SetUint64(uint64(v)) })
	exactInt("FromUint32", func(v int64) D { return decimal128.FromUint32(uint32(v)) }, func(v int64) *big.Int { return new(big.Int).SetUint64(uint64(uint32(v))) })

	// FromInt: I[0] = pool index of the (shared) big.Int.
	reg("FromInt", func(x *Ctx, op *Op, r *Result) {
		i := x.pool.ints[int(op.int(0))%len(x.pool.ints)]
		x.call(r, func() { r.dec(decimal128.FromInt(i)) })
	}).Check = func(x *Ctx, op *Op, r *Result) string {
		if s := noPanic(r); s != "" {
			return s
		}
		i := parseBigInt(x.pool.spec.Ints[int(op.int(0))%len(x.pool.spec.Ints)])
		// the statement pins nearest-even; it is what DefaultRoundingMode
		// selects unless changed, so the check runs with the epoch's mode
		// only when that mode is nearest-even.
		if x.mode != ref.ToNearestEven {
			return ""
		}
		want := ref.Round(i.Sign() < 0, new(big.Int).Abs(i), 0, false, ref.ToNearestEven)
		return wantDec(r, want.N, "FromInt")
	}

	// FromRat: I[0] = pool index of the (shared) big.Rat.
	reg("FromRat", func(x *Ctx, op *Op, r *Result) {
		q := x.pool.rats[int(op.int(0))%len(x.pool.rats)]
		x.call(r, func() { r.dec(decimal128.FromRat(q)) })
	}).Check = func(x *Ctx, op *Op, r *Result) string {
		if s := noPanic(r); s != "" {
			return s
		}
		if x.mode != ref.ToNearestEven {
			return ""
		}
		q := parseRat(x.pool.spec.Rats[int(op.int(0))%len(x.pool.spec.Rats)])
		return checkFromRat(q, r)
	}

	// FromFloat: I[0] = pool index of the (shared) big.Float (C09 is not
	// claimed: no reference check, only the generic oracles).
	reg("FromFloat", func(x *Ctx, op *Op, r *Result) {
		f := x.pool.floats[int(op.int(0))%len(x.pool.floats)]
		x.call(r, func() { r.dec(decimal128.FromFloat(f)) })
	})

	// Int: D[0], I[0] = private big.Int slot (-1: nil).
	d := reg("Int", func(x *Ctx, op *Op, r *Result) {
		a, z := op.dec(0), x.int(op.int(0))
		x.call(r, func() {
			res := a.Int(z)
			r.extra(res.String())
			r.bool(z == nil || res == z)
			if z == nil {
				r.keepBig("Int(nil)", res)
			}
		})
	})
	d.PanicOK = specialPanicOK
	d.Check = func(x *Ctx, op *Op, r *Result) string {
		a := op.dec(0)
		if isSpecBits(a) {
			if !r.HasPanic {
				return "Int of NaN/Inf did not panic"
			}
			return ""
		}
		if s := noPanic(r); s != "" {
			return s
		}
		want := ref.IntTrunc(NumOf(a))
		if r.X[0] != want.String() {
			return fmt.Sprintf("Int(%s) = %s, reference %s", NumOf(a), r.X[0], want)
		}
		if !r.B[0] {
			return "Int(z) did not return z"
		}
		return ""
	}

	// Rat: D[0], I[0] = private big.Rat slot (-1: nil).
	d = reg("Rat", func(x *Ctx, op *Op, r *Result) {
		a, z := op.dec(0), x.rat(op.int(0))
		x.call(r, func() {
			res := a.Rat(z)
			r.extra(ratText(res))
			r.bool(z == nil || res == z)
			// FromRat(d.Rat(nil)) must be Equal to d
			back := decimal128.FromRat(res)
			r.dec(back)
		})
	})
	d.PanicOK = specialPanicOK
	d.Check = func(x *Ctx, op *Op, r *Result) string {
		a := op.dec(0)
		if isSpecBits(a) {
			if !r.HasPanic {
				return "Rat of NaN/Inf did not panic"
			}
			return ""
		}
		if s := noPanic(r); s != "" {
			return s
		}
		n := NumOf(a)
		want := n.Rat()
		got, ok := new(big.Rat).SetString(r.X[0])
		if !ok || got.Cmp(want) != 0 {
			return fmt.Sprintf("Rat(%s) = %s, reference %s", n, r.X[0], want)
		}
		if r.X[0] != ratText(want) {
			return fmt.Sprintf("Rat(%s) = %s is not in lowest terms / normal form (%s)", n, r.X[0], ratText(want))
		}
		if !r.B[0] {
			return "Rat(z) did not return z"
		}
		// round trip; a negative zero has no rational counterpart
		back := NumOf(r.D[0])
		wantBack := n
		if n.IsZero() {
			wantBack = ref.Num{Coef: new(big.Int)}
		}
		if x.mode == ref.ToNearestEven && !ref.SameValue(back, wantBack) {
			return fmt.Sprintf("FromRat(Rat(%s)) = %s", n, back)
		}
		return ""
	}

	// Float: C09 is not claimed; generic oracles only.
	reg("Float", func(x *Ctx, op *Op, r *Result) {
		a, z := op.dec(0), x.float(op.int(0))
		x.call(r, func() {
			res := a.Float(z)
			r.extra(floatText(res))
			r.bool(z == nil || res == z)
		})
	}).PanicOK = nanPanicOK

	fixed := func(name string, f func(D) (int64, uint64, bool), lo, hi *big.Int, unsigned bool) {
		d := reg(name, func(x *Ctx, op *Op, r *Result) {
			a := op.dec(0)
			x.call(r, func() {
				i, u, ok := f(a)
				r.int(i)
				r.uint(u)
				r.bool(ok)
			})
		})
		d.PanicOK = nanPanicOK
		d.Check = func(x *Ctx, op *Op, r *Result) string {
			a := op.dec(0)
			if isNaNBits(a) {
				if !r.HasPanic {
					return name + " of NaN did not panic"
				}
				return ""
			}
			if s := noPanic(r); s != "" {
				return s
			}
			var want *big.Int
			wantOK := true
			if isInfBits(a) {
				hi64, _ := Bits(a)
				wantOK = false
				if hi64>>63 == 1 {
					want = lo
				} else {
					want = hi
				}
			} else {
				want = ref.IntTrunc(NumOf(a))
				if want.Cmp(lo) < 0 {
					want, wantOK = lo, false
				} else if want.Cmp(hi) > 0 {
					want, wantOK = hi, false
				}
			}
			var got *big.Int
			if unsigned {
				got = new(big.Int).SetUint64(r.U[0])
			} else {
				got = big.NewInt(r.I[0])
			}
			if got.Cmp(want) != 0 || r.B[0] != wantOK {
				return fmt.Sprintf("%s(%s) = (%s, %v), reference (%s, %v)", name, NumOf(a), got, r.B[0], want, wantOK)
			}
			return ""
		}
	}
	fixed("Int64", func(a D) (int64, uint64, bool) { v, ok := a.Int64(); return v, 0, ok },
		big.NewInt(math.MinInt64), big.NewInt(math.MaxInt64), false)
	fixed("Int32", func(a D) (int64, uint64, bool) { v, ok := a.Int32(); return int64(v), 0, ok },
		big.NewInt(math.MinInt32), big.NewInt(math.MaxInt32), false)
	fixed("Uint64", func(a D) (int64, uint64, bool) { v, ok := a.Uint64(); return 0, v, ok },
		new(big.Int), new(big.Int).SetUint64(math.MaxUint64), true)
	fixed("Uint32", func(a D) (int64, uint64, bool) { v, ok := a.Uint32(); return 0, uint64(v), ok },
		new(big.Int), new(big.Int).SetUint64(math.MaxUint32), true)
}

var relTol = func() *big.Rat {
	// 2 parts in 10^33
	return new(big.Rat).SetFrac(big.NewInt(2), ref.Pow10(33))
}()

func checkFromRat(q *big.Rat, r *Result) string {
	if len(r.D) == 0 {
		return "FromRat: no result"
	}
	got := NumOf(r.D[0])
	exact := ref.RoundRat(q, ref.ToNearestEven)
	nd := ref.NumDigits(new(big.Int).Abs(q.Num()))
	dd := ref.NumDigits(q.Denom())
	if nd <= 34 && dd <= 34 {
		if !ref.SameValue(got, exact.N) {
			// a zero rational has no sign
			return fmt.Sprintf("FromRat(%s) = %s, correctly rounded quotient is %s", q, got, exact.N)
		}
		return ""
	}
	// otherwise: within 2 parts in 10^33 of the exact value (when the
	// result is a normal finite number); overflow/underflow regions follow
	// the correctly rounded result's class.
	if exact.N.Class != ref.Finite || got.Class != ref.Finite {
		if exact.Overflow {
			// the two-step computation may overflow slightly differently right at the edge
			if got.Class == ref.Inf && got.Neg == exact.N.Neg {
				return ""
			}
			if got.Class == ref.Finite && got.Exp == ref.MaxExp {
				return ""
			}
		}
		if got.Class != exact.N.Class {
			if got.Class == ref.Inf && exact.N.Class == ref.Finite && exact.N.Exp >= ref.MaxExp-1 {
				return "" // at the overflow edge the relative tolerance straddles the largest finite value
			}
			return fmt.Sprintf("FromRat(%s) = %s, reference %s", q, got, exact.N)
		}
		return ""
	}
	if exact.N.IsZero() || exact.N.Exp <= ref.MinExp+40 {
		// subnormal range: the relative bound cannot hold below the smallest quantum
		return ""
	}
	if q.Sign() == 0 {
		if !got.IsZero() {
			return fmt.Sprintf("FromRat(0) = %s", got)
		}
		return ""
	}
	diff := new(big.Rat).Sub(got.Rat(), q)
	diff.Abs(diff)
	bound := new(big.Rat).Mul(new(big.Rat).Abs(q), relTol)
	if diff.Cmp(bound) > 0 {
		return fmt.Sprintf("FromRat(%s) = %s is farther than 2e-33 (relative) from the exact value", q, got)
	}
	return ""
}
