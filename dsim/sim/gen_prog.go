package sim

import (
	"encoding/json"
	"fmt"
	"github.com/woodsbury/decimal128"
	"math"
	"math/big"
	"strings"

	"dsim/ref"
)

// Profile describes how programs are generated for one property.
type Profile struct {
	Name     string
	Property string
	Checks   bool
	Reverse  bool // also run the order-independence (purity) pass
	Gen      func(g *Gen, p *Program)
}

// Profiles by name.
var Profiles = map[string]*Profile{}

func init() {
	for _, p := range []*Profile{
		{Name: "P20", Property: "C20", Checks: false, Reverse: true, Gen: genP20},
		{Name: "P05", Property: "C05", Checks: true, Gen: genP05},
		{Name: "P06", Property: "C06", Checks: true, Gen: genP06},
		{Name: "P07", Property: "C07", Checks: true, Gen: genP07},
		{Name: "P10", Property: "C10", Checks: true, Gen: genP10},
		{Name: "P13", Property: "C13", Checks: true, Gen: genP13},
		{Name: "P14", Property: "C14", Checks: true, Gen: genP14},
	} {
		Profiles[p.Name] = p
	}
}

// privSlots describes how many long-lived objects of each kind a task has.
const (
	nBufs  = 3
	nBig   = 2
	nRecv  = 3
	verbsF = "eEfFgG"
)

func (g *Gen) privSpec() PrivSpec {
	var ps PrivSpec
	for i := 0; i < nBufs; i++ {
		ps.Bufs = append(ps.Bufs, g.BufSpec())
	}
	for i := 0; i < nBig; i++ {
		ps.Ints = append(ps.Ints, g.BigInt(300).Text(16))
		ps.Rats = append(ps.Rats, g.Rat().String())
		ps.Floats = append(ps.Floats, g.FloatSpec())
	}
	for i := 0; i < nRecv; i++ {
		ps.Recv = append(ps.Recv, g.Dec())
	}
	return ps
}

func (g *Gen) slot(n int) int64 {
	if g.R.P(1, 4) {
		return -1
	}
	return int64(g.R.N(n))
}

func (g *Gen) modeArg() int64 {
	if g.R.P(1, 40) {
		return int64(g.R.Range(6, 255))
	}
	return int64(g.R.N(6))
}

// fill draws the arguments of one operation of the given kind.
func (g *Gen) fill(kind string, p *Program) Op {
	op := Op{Kind: kind}
	d := g.PoolDec
	switch kind {
	case "Abs", "Cbrt", "Ceil", "Exp", "Exp10", "Exp2", "Expm1", "Floor", "Log", "Log10", "Log1p", "Log2",
		"Round", "Sqrt", "Trunc", "Canonical", "Neg", "IsNaN", "IsZero", "Signbit", "Sign", "Payload", "Frexp",
		"Float64", "Float32", "MarshalBinary", "String", "MarshalText", "MarshalJSON",
		"Int64", "Int32", "Uint64", "Uint32":
		op.D = []string{d()}
		switch kind {
		case "Cbrt", "Exp", "Exp10", "Exp2", "Expm1", "Log", "Log10", "Log1p", "Log2", "Sqrt", "Frexp", "Canonical":
			// poles, fixed points and shortcut arguments, in any encoding
			if g.R.P(1, 5) {
				op.D = []string{g.smallConst()}
			}
		}
		switch kind {
		case "Int64", "Int32", "Uint64", "Uint32":
			if g.R.P(1, 2) {
				op.D = []string{g.boundDec()}
			}
		}
	case "Add", "Sub", "Mul", "Quo", "Pow", "Max", "Min", "QuoRem", "Cmp", "CmpAbs", "Equal", "Compare":
		op.D = []string{d(), d()}
		if kind == "Pow" && g.R.P(1, 2) {
			op.D[1] = g.smallConst()
		}
	case "ModeTwin":
		op.D = []string{d(), d()}
		op.I = []int64{int64(g.R.N(6))}
	case "AddWithMode", "SubWithMode", "MulWithMode", "QuoWithMode", "PowWithMode", "QuoRemWithMode":
		op.D = []string{d(), d()}
		op.I = []int64{g.modeArg()}
		if kind == "PowWithMode" && g.R.P(1, 2) {
			op.D[1] = g.smallConst()
		}
	case "CmpResult":
		op.I = []int64{int64(g.R.Range(-3, 3))}
	case "CeilDP", "FloorDP":
		op.D = []string{d()}
		op.I = []int64{g.dpArg()}
	case "RoundDP":
		op.D = []string{d()}
		op.I = []int64{g.dpArg(), g.modeArg()}
	case "IsInf":
		op.D = []string{d()}
		op.I = []int64{int64(g.R.Range(-1, 1))}
		if g.R.P(1, 5) {
			op.I[0] = g.intArg()
		}
	case "PayloadString":
		v := int64(g.R.U64())
		if g.R.P(2, 3) {
			v = int64(g.R.N(24)) | int64(g.R.N(8))<<8 | int64(g.R.N(8))<<16
		}
		op.I = []int64{v}
	case "RoundingModeString":
		op.I = []int64{int64(g.R.N(9))}
	case "Const":
		op.I = []int64{int64(g.R.N(7)), g.intArg()}
	case "New":
		op.I = []int64{g.intArg(), g.dpArg()}
	case "Ldexp":
		op.D = []string{d()}
		op.I = []int64{g.dpArg()}
	case "FromFloat64":
		v := g.R.U64()
		if g.R.P(1, 4) {
			v = math.Float64bits(float64(g.R.Range(-1000, 1000)) / 8)
		}
		op.I = []int64{int64(v)}
	case "FromFloat32":
		op.I = []int64{int64(uint32(g.R.U64()))}
	case "FromInt64", "FromInt32", "FromUint64", "FromUint32":
		op.I = []int64{g.intArg()}
	case "FromInt":
		op.I = []int64{int64(g.R.N(len(p.Pool.Ints)))}
	case "FromRat":
		op.I = []int64{int64(g.R.N(len(p.Pool.Rats)))}
	case "FromFloat":
		op.I = []int64{int64(g.R.N(len(p.Pool.Floats)))}
	case "Int64b", "Int32b", "Uint64b", "Uint32b":
		panic("unreachable")
	case "Int", "Rat", "Float":
		op.D = []string{d()}
		op.I = []int64{g.slot(nBig)}
	case "UnmarshalBinary":
		n := 16
		if g.R.P(1, 3) {
			n = g.R.N(65)
		}
		b := make([]byte, n)
		for i := range b {
			b[i] = byte(g.R.N(256))
		}
		op.B = []string{hx(b)}
		op.I = []int64{g.slot(nRecv)}
	case "Parse", "MustParse":
		op.B = []string{hx([]byte(g.Literal(false)))}
	case "UnmarshalText":
		op.B = []string{hx([]byte(g.Literal(false)))}
		op.I = []int64{g.slot(nRecv)}
	case "Sscan":
		tok := g.Literal(true)
		in := strings.Repeat(" ", g.R.N(3)) + tok
		if g.R.P(1, 3) {
			in += " " + g.ValidLiteral(true, false)
		}
		variant := int64(g.R.N(3))
		op.B = []string{hx([]byte(in))}
		op.I = []int64{variant, g.slot(nRecv)}
		if variant == 2 {
			f := "%" + string("eEfFgGv"[g.R.N(7)])
			if g.R.P(1, 3) {
				// a width cuts the token after that many runes
				f = "%" + fmt.Sprint(g.R.Range(1, len(tok)+3)) + string("eEfFgGv"[g.R.N(7)])
			}
			if g.R.P(1, 10) {
				f = "%" + string("dsxqc"[g.R.N(5)])
			}
			op.S = []string{f}
		}
	case "ScanState":
		tok := g.Literal(true)
		lead := strings.Repeat(" ", g.R.N(3))
		in := lead + tok
		if g.R.P(1, 3) {
			in += " " + g.ValidLiteral(true, false)
		}
		errAt := int64(-1)
		if g.R.P(1, 2) {
			errAt = int64(g.R.N(len(lead) + len(tok) + 2))
		}
		verb := int64("eEfFgGv"[g.R.N(7)])
		if g.R.P(1, 20) {
			verb = int64("dsxq"[g.R.N(4)])
		}
		op.B = []string{hx([]byte(in))}
		op.I = []int64{verb, errAt, g.slot(nRecv), int64(g.R.N(6)), 0}
		if g.R.P(1, 3) {
			// a peer that evaluates the predicate of Token more than once per
			// rune and/or can push back more than one rune
			op.I[4] = int64(g.R.N(8))
		}
		if g.R.P(1, 4) {
			// a peer whose tokens are windows of storage it overwrites on
			// the next read
			op.I[4] |= 8
		}
		if g.R.P(1, 4) {
			// a peer that also has bufio's Peek and Discard, small buffer
			op.I[4] |= 16 | int64(g.R.N(3))<<5
		}
	case "TextRT":
		op.D = []string{d()}
		op.I = []int64{int64(g.R.N(len(textProducers))), int64(g.R.N(len(textConsumers)))}
	case "FormatFn":
		op.D = []string{d()}
		op.I = []int64{int64("eEfgG"[g.R.N(5)]), g.precArg()}
		if g.wildSpecs && g.R.P(1, 12) {
			// any format byte, any negative precision (totality)
			op.I[0] = int64(g.R.N(256))
			if g.R.P(1, 2) {
				op.I[1] = []int64{-2, -100, math.MinInt64, math.MinInt32}[g.R.N(4)]
			}
		}
		if g.R.P(1, 10) {
			dec, verb, prec := g.keptPrefix()
			if verb == 'F' {
				verb = 'f'
			}
			op.D, op.I = []string{dec}, []int64{int64(verb), int64(prec)}
		}
	case "AppendFn":
		op.D = []string{d()}
		op.I = []int64{int64("eEfgG"[g.R.N(5)]), g.precArg(), g.slot(nBufs), int64(g.R.N(3) / 2)}
		if g.R.P(1, 10) {
			dec, verb, prec := g.keptPrefix()
			if verb == 'F' {
				verb = 'f'
			}
			op.D, op.I[0], op.I[1] = []string{dec}, int64(verb), int64(prec)
		}
	case "AppendM":
		op.D = []string{d()}
		op.S = []string{g.Spec(verbsF+"v", g.maxWP())}
		op.I = []int64{g.slot(nBufs), int64(g.R.N(3) / 2)}
		g.keptPrefixSpec(&op)
	case "Sprintf":
		op.D = []string{d()}
		op.S = []string{g.Spec(verbsF+"v", g.maxWP())}
		op.I = []int64{int64(g.R.N(3)), g.slot(nBufs)}
		g.keptPrefixSpec(&op)
	case "FormatState", "AppendVsSprintf":
		op.D = []string{d()}
		op.S = []string{g.Spec(verbsF, g.maxWP())}
		g.keptPrefixSpec(&op)
		if kind == "FormatState" && g.R.P(1, 3) {
			// a State need not answer 0 for an absent width or precision, and
			// its Write may refuse bytes
			op.I = []int64{int64(g.R.Range(1, 60)), int64(g.R.Range(1, 60)), 0, 0}
			if g.R.P(1, 4) {
				op.I[2], op.I[3] = int64(g.R.Range(1, 3)), int64(g.R.N(12))
				if g.R.P(1, 3) {
					op.I[2] = 3
				}
				if g.R.P(1, 3) {
					// one whole Write call refused, the others accepted
					op.I[2], op.I[3] = 4, int64(g.R.Range(1, 3))
				} else if g.R.P(1, 4) {
					// Write formats a Decimal itself (re-entry)
					op.I[2], op.I[3] = 5, 0
				}
			}
		}
	case "UnmarshalJSON":
		op.B = []string{hx([]byte(g.jsonToken()))}
		op.I = []int64{g.slot(nRecv)}
	case "JSONRT":
		op.D = []string{d(), d(), d(), d(), g.Dec()}
		op.I = []int64{int64(g.R.N(4) / 3)}
	case "JSONRT2":
		op.D = []string{d(), d(), d(), d(), g.Dec()}
		op.I = []int64{int64(g.R.N(8))}
	case "JSONDoc":
		op.D = []string{g.Dec()}
		op.S = []string{g.jsonDocToken(), g.jsonDocToken(), g.jsonDocToken()}
	case "Decompose":
		op.D = []string{d()}
		op.I = []int64{g.slot(nBufs), int64(g.R.N(4) / 3), int64(g.R.N(nBufs))}
		if g.R.P(1, 4) {
			// small coefficients and small values
			op.D = []string{parseLitForGen(fmt.Sprintf("%de%d", g.R.Range(-300, 300), g.R.Range(-20, 20)))}
		}
	case "ComposeRow":
		op.I = []int64{int64(g.R.N(8)), g.slot(nRecv)}
	case "Compose":
		op.I, op.B = g.composeArgs()
	case "Scribble":
		op.I = []int64{int64(g.R.N(6))}
	default:
		panic("gen: no argument generator for op " + kind)
	}
	return op
}

// smallConst returns one of the constants on which functions tend to have
// shortcuts (exponents 0, 1, -1, +-0.5, 2, 3, 10, small integers), in a
// random encoding.
func (g *Gen) smallConst() string {
	lits := []string{"0", "1", "-1", "0.5", "-0.5", "2", "-2", "3", "10", "0.1", "1.5", "4", "0.25", "-0", "100", "0.3333333333333333333333333333333333"}
	l := lits[g.R.N(len(lits))]
	if g.R.P(1, 2) {
		return g.cohortMember(l)
	}
	return parseLitForGen(l)
}

func (g *Gen) maxWP() int {
	if g.heavy && g.R.P(1, 4) {
		return 100000
	}
	return 40
}

func (g *Gen) precArg() int64 {
	switch g.R.N(8) {
	case 0:
		return -1
	case 1:
		return 0
	case 2:
		if g.heavy {
			return int64(g.R.N(100001))
		}
		return int64(g.R.Range(41, 200))
	}
	return int64(g.R.N(41))
}

// jsonNumberLit builds a JSON number (RFC 8259).
func (g *Gen) jsonNumberLit() string {
	if len(g.jlits) > 0 && g.R.P(1, 3) {
		return g.jlits[g.R.N(len(g.jlits))]
	}
	var b strings.Builder
	if g.R.P(1, 3) {
		b.WriteByte('-')
	}
	if g.R.P(1, 5) {
		b.WriteByte('0')
	} else {
		b.WriteString(g.digits(g.litLen()))
	}
	if g.R.P(1, 2) {
		b.WriteByte('.')
		b.WriteString(g.litDigits(g.R.Range(1, 45), false))
	}
	if g.R.P(1, 2) {
		b.WriteByte("eE"[g.R.N(2)])
		if g.R.P(2, 3) {
			b.WriteByte("+-"[g.R.N(2)])
		}
		b.WriteString(g.expDigits())
	}
	return b.String()
}

var jsonOthers = []string{`"1"`, `"abc"`, `true`, `false`, `[1]`, `[]`, `{}`, `{"a":1}`, `""`, `"NaN"`, `"null"`, `[null]`}
var jsonGarbage = []string{``, `+1`, `.`, `-.`, `1.`, `.5`, `01`, `-`, `1e`, `1_0`, `NaN`, `Infinity`, `-Inf`, `nul`, `nulll`, `Null`, `tru`, `1 2`, `0x1`, `1e+`, `--1`, `[`, `"`, `1,`, ` 1`, `1 `}

// jsonToken: argument of a direct UnmarshalJSON call (arbitrary bytes allowed).
func (g *Gen) jsonToken() string {
	switch g.R.N(10) {
	case 0:
		return "null"
	case 1:
		return jsonOthers[g.R.N(len(jsonOthers))]
	case 2:
		return jsonGarbage[g.R.N(len(jsonGarbage))]
	case 3:
		return g.Literal(false)
	case 4:
		if g.R.P(1, 3) {
			return g.ByteRun()
		}
		return g.LookAlike()
	}
	return g.jsonNumberLit()
}

// jsonDocToken: a valid JSON value placed where a Decimal is expected.
func (g *Gen) jsonDocToken() string {
	switch g.R.N(10) {
	case 0, 1:
		return "null"
	case 2:
		return jsonOthers[g.R.N(len(jsonOthers))]
	}
	return g.jsonNumberLit()
}

func (g *Gen) composeArgs() ([]int64, []string) {
	form := int64(0)
	switch g.R.N(12) {
	case 0:
		form = 1
	case 1:
		form = 2
	case 2:
		form = int64(g.R.Range(3, 255))
	}
	neg := int64(g.R.N(2))
	var coef []byte
	var exp int64
	switch g.R.N(9) {
	case 0: // empty or zero bytes
		coef = make([]byte, g.R.N(5))
		exp = int64(int32(g.R.U64()))
	case 1, 2: // representable: coefficient times a power of ten, exponent compensated
		c := g.coef()
		k := g.R.N(60)
		c.Mul(c, pow10big(k))
		coef = c.Bytes()
		exp = int64(g.R.Range(-6176-k, 6111-k+g.R.N(3)))
		if g.R.P(1, 3) {
			exp = int64(g.R.Range(6111-k-36, 6111-k+40))
		}
	case 3: // long coefficients with trailing zeros: several hundred bytes
		c := g.coef()
		k := g.R.Range(50, 900)
		c.Mul(c, pow10big(k))
		coef = c.Bytes()
		exp = int64(g.R.Range(-6176-k-2, 6111-k+2))
	case 6: // a representable value right next to a power of two: bit-length thresholds
		n := g.R.Range(60, 4200)
		t := new(big.Int).Lsh(big.NewInt(1), uint(n))
		k := ref.NumDigits(t) - g.R.Range(1, 34)
		if k < 0 {
			k = 0
		}
		m := new(big.Int).Quo(t, pow10big(k))
		if g.R.P(1, 2) {
			m.Add(m, big.NewInt(1)) // just above 2^n
		}
		c := new(big.Int).Mul(m, pow10big(k))
		coef = c.Bytes()
		exp = int64(g.R.Range(-6176-k+g.R.N(3), 6111-k))
		if g.R.P(1, 2) {
			exp = int64(-k + g.R.Range(-40, 40))
		}
	case 4: // extremes of the exponent
		c := g.coef()
		coef = c.Bytes()
		exp = []int64{math.MinInt32, math.MaxInt32, -6177, -6176, 6111, 6112, 6146, 6147, -6211, -6212}[g.R.N(10)]
	case 7: // long and just not representable: a multiple of 10^k disturbed by one lower digit
		c := g.coef()
		k := g.R.Range(20, 400)
		c.Mul(c, pow10big(k))
		c.Add(c, new(big.Int).Mul(big.NewInt(int64(g.R.Range(1, 9))), pow10big(g.R.N(k))))
		coef = c.Bytes()
		exp = int64(g.R.Range(-6176-k-2, 6111-k+2))
	case 5: // arbitrary bytes
		n := g.R.Range(1, 40)
		if g.R.P(1, 4) {
			n = g.R.Range(41, 300)
		}
		coef = make([]byte, n)
		for i := range coef {
			coef[i] = byte(g.R.N(256))
		}
		exp = int64(g.R.Range(-6300, 6300))
	default:
		c := g.coef()
		if g.R.P(1, 3) {
			c.Add(c, pow10big(g.R.N(3)))
		}
		coef = c.Bytes()
		exp = int64(g.R.Range(-6200, 6150))
	}
	if g.R.P(1, 3) { // leading zero bytes
		coef = append(make([]byte, g.R.Range(1, 20)), coef...)
	}
	return []int64{form, neg, exp, g.slot(nRecv)}, []string{hx(coef)}
}

// ---------- planning ----------

// PlanSchedule draws pre-emption points inside operations (the statement
// counts come from a sequential calibration pass) and hand-overs at
// operation boundaries.
func PlanSchedule(g *Gen, p *Program, ei int, steps [][]uint64) {
	{
		ep := &p.Epochs[ei]
		nt := len(ep.Tasks)
		ep.First = g.R.N(nt)
		if nt < 2 {
			return
		}
		style := g.R.N(12) // 0: no pre-emption at all; 1: boundary only; 10, 11: victim; else mixed
		if g.focus && style >= 5 && style < 9 {
			style = 10 // trees with new shared state: more than half of the schedules
		}
		if style >= 10 {
			// One caller advances from synchronisation event to synchronisation
			// event (lock acquisitions, atomic operations); every time it stops,
			// another caller runs whole operations and hands the processor
			// back. This is the shape of version/ABA mistakes in lock-free code:
			// the state goes A -> B -> A while the victim sits between two
			// loads. Without synchronisation events in the tree it is the
			// "boundary only" style.
			v := g.R.N(nt)
			for ti := range ep.Tasks {
				for oi := range ep.Tasks[ti].Ops {
					op := &ep.Tasks[ti].Ops[oi]
					op.Pre, op.After, op.PreLock = nil, nil, nil
					if ti == v {
						first := uint64(g.R.Range(1, 3))
						for k := first; k < first+uint64(g.R.Range(1, 6)); k++ {
							op.PreLock = append(op.PreLock, Preempt{Step: k, To: g.R.N(nt)})
						}
						continue
					}
					// hand the processor back to the victim after most
					// operations (To counts live tasks round-robin from ti)
					if g.R.P(1, 4) {
						continue // two operations in a row
					}
					to := (v - ti - 1 + nt) % nt
					if g.R.P(1, 8) {
						to = g.R.N(nt)
					}
					op.After = &to
				}
			}
			return
		}
		for ti := range ep.Tasks {
			for oi := range ep.Tasks[ti].Ops {
				op := &ep.Tasks[ti].Ops[oi]
				op.Pre = nil
				op.After = nil
				op.PreLock = nil
				if style == 0 {
					continue
				}
				if g.R.P(1, 3) {
					// no effect unless the tree takes locks
					op.PreLock = append(op.PreLock, Preempt{Step: uint64(g.R.Range(1, 6)), To: g.R.N(nt)})
				}
				var n uint64
				if ti < len(steps) && oi < len(steps[ti]) {
					n = steps[ti][oi]
				}
				if steps == nil {
					n = uint64(g.R.Range(20, 600)) // a cold run: no calibration, a guess
				}
				if style >= 2 && n > 0 {
					k := []int{0, 0, 1, 1, 1, 2, 2, 3, 4}[g.R.N(9)]
					for i := 0; i < k; i++ {
						st := uint64(g.R.N(int(minU64(n, 1<<30)))) + 1
						op.Pre = append(op.Pre, Preempt{Step: st, To: g.R.N(nt)})
					}
					sortPre(op.Pre)
				}
				if g.R.P(1, 2) {
					to := g.R.N(nt)
					op.After = &to
				}
			}
		}
	}
}

func minU64(a, b uint64) uint64 {
	if a < b {
		return a
	}
	return b
}

func sortPre(p []Preempt) {
	for i := 1; i < len(p); i++ {
		for j := i; j > 0 && p[j].Step < p[j-1].Step; j-- {
			p[j], p[j-1] = p[j-1], p[j]
		}
	}
}

// GenerateFocus builds a P20 program that concentrates on a few operation
// kinds (those that reach package-level state the pinned tree does not
// have): few operands drawn from small sweeps so that calls collide on
// their arguments, and two or three epochs that repeat the same calls under
// different rounding modes. Such a program is executed in two fresh
// processes, once with its epochs in order and once reversed; the results of
// an epoch must not depend on which epochs ran before it.
func GenerateFocus(prof *Profile, seed, run uint64, kinds []string) (*Program, *Gen) {
	g := &Gen{R: NewRng(seed, run, prof.Name+"/focus"), focus: true}
	p := &Program{Profile: prof.Name, Seed: seed, Run: run}
	stampSeams(p)
	g.sharedPool(p, 2000)
	// sweep operands
	n := g.R.Range(8, 14)
	for i := 0; i < n; i++ {
		var lit string
		k := g.R.Range(-70, 70)
		switch g.R.N(6) {
		case 0:
			lit = fmt.Sprintf("%d.5", k)
		case 1:
			lit = fmt.Sprintf("%de%d", k, g.R.Range(-3, 3))
		case 2:
			lit = fmt.Sprintf("%d", 1<<uint(g.R.N(40)))
		default:
			lit = fmt.Sprint(k)
		}
		if g.R.P(1, 2) {
			g.decs = append(g.decs, g.cohortMember(lit))
		} else {
			g.decs = append(g.decs, parseLitForGen(lit))
		}
	}
	if g.R.P(1, 2) {
		// an arithmetic progression: arguments that differ by a stride
		// collide in direct-mapped tables, hash buckets and modular indices
		start := g.R.Range(-7000, 7000)
		stride := []int{1, 2, 10, 16, 64, 100, 128, 256, 1000, 1024}[g.R.N(10)]
		frac := []string{"", "", ".5", ".25"}[g.R.N(4)]
		for i := g.R.Range(3, 6); i > 0; i-- {
			g.decs = append(g.decs, parseLitForGen(fmt.Sprintf("%d%s", start, frac)))
			start += stride * g.R.Range(1, 3)
		}
	}
	if g.R.P(1, 2) {
		// the same for exponents (powers of ten are what conversions cache)
		e0 := g.R.Range(-6150, 6000)
		stride := []int{1, 2, 10, 16, 32, 64, 100, 128, 256, 1000, 1024}[g.R.N(11)]
		c := g.R.Range(1, 9999)
		var prog []string
		for i := g.R.Range(2, 5); i > 0 && e0 <= 6100; i-- {
			prog = append(prog, parseLitForGen(fmt.Sprintf("%de%d", c, e0)))
			e0 += stride * g.R.Range(1, 3)
		}
		g.decs = append(g.decs, prog...)
		if g.R.P(1, 2) {
			g.decs = prog // narrow: every call collides with another one
		}
	}
	g.decs = append(g.decs, g.Dec())
	if g.R.P(1, 3) {
		// wide variant: state that fills up with distinct arguments (caches
		// with a budget, tables that grow) needs variety, not collisions
		g.decs = nil
		for i := 0; i < 6; i++ {
			g.decs = append(g.decs, g.Dec())
		}
	}
	if g.R.P(1, 3) {
		g.decs = append(g.decs, "7c000000000000000000000000000000", "78000000000000000000000000000000", "f8000000000000000000000000000000")
	}
	for i := 0; i < 3; i++ {
		g.lits = append(g.lits, g.Literal(false))
	}
	use := kinds
	if len(use) > 4 {
		use = nil
		for i := 0; i < 4; i++ {
			use = append(use, kinds[g.R.N(len(kinds))])
		}
	}
	tasks := g.tasksOf(p, g.R.Range(1, 3), 8, use, nil)
	// three different modes (every pair of them is compared by the
	// permutation oracle), or two and the first one again
	perm := []uint8{0, 1, 2, 3, 4, 5}
	for i := 5; i > 0; i-- {
		j := g.R.N(i + 1)
		perm[i], perm[j] = perm[j], perm[i]
	}
	modes := []uint8{perm[0], perm[1], perm[2]}
	if g.R.P(1, 3) {
		modes = []uint8{0, perm[1], perm[2]}
		if perm[1] == 0 {
			modes[1] = perm[0]
		} else if perm[2] == 0 {
			modes[2] = perm[0]
		}
	}
	if g.R.P(1, 4) {
		modes[2] = modes[0]
	}
	for _, m := range modes {
		ep := Epoch{Mode: m}
		b, _ := json.Marshal(tasks)
		json.Unmarshal(b, &ep.Tasks)
		p.Epochs = append(p.Epochs, ep)
	}
	return p, g
}

// Generate builds the Program of (profile, seed, run) without a schedule.
func Generate(prof *Profile, seed, run uint64) (*Program, *Gen) {
	g := &Gen{R: NewRng(seed, run, prof.Name)}
	p := &Program{Profile: prof.Name, Seed: seed, Run: run}
	stampSeams(p)
	g.heavy = g.R.P(1, 40)
	nd := g.R.Range(2, 6)
	for i := 0; i < nd; i++ {
		g.decs = append(g.decs, g.Dec())
	}
	if g.R.P(1, 3) {
		g.decs = append(g.decs, g.smallConst())
	}
	prof.Gen(g, p)
	g.shareInputs(p)
	return p, g
}

// sharedInputKinds take a read-only byte string as B[0].
var sharedInputKinds = map[string]bool{"UnmarshalText": true, "UnmarshalJSON": true, "UnmarshalBinary": true, "Compose": true}

// shareInputs makes some programs pass the very same input bytes (or
// overlapping views of one array: a coefficient column with leading zero
// padding) to calls of several tasks of an epoch, the way callers share a
// read-only message. The bytes become a shared object of the pool.
func (g *Gen) shareInputs(p *Program) {
	if !g.R.P(1, 3) {
		return
	}
	for ei := range p.Epochs {
		ep := &p.Epochs[ei]
		if len(ep.Tasks) < 2 || len(ep.Streams) > 0 || len(p.Pool.Bytes) >= 3 {
			continue
		}
		type at struct{ ti, oi int }
		var cands []at
		for ti := range ep.Tasks {
			for oi, op := range ep.Tasks[ti].Ops {
				if sharedInputKinds[op.Kind] && len(op.B) > 0 && len(op.B[0]) > 0 {
					cands = append(cands, at{ti, oi})
				}
			}
		}
		if len(cands) == 0 {
			continue
		}
		c := cands[g.R.N(len(cands))]
		src := ep.Tasks[c.ti].Ops[c.oi]
		raw := unhex(src.B[0])
		pad := 0
		if src.Kind == "Compose" {
			pad = []int{0, 0, 1, 3, 8, 24, 64}[g.R.N(7)]
		}
		shared := append(make([]byte, pad), raw...)
		p.Pool.Bytes = append(p.Pool.Bytes, hx(shared))
		for tj := range ep.Tasks {
			if tj != c.ti && !g.R.P(2, 3) {
				continue
			}
			cl := cloneOp(&src)
			cl.B[0] = hx(shared[pad-g.R.N(pad+1):])
			if tj == c.ti {
				ep.Tasks[tj].Ops[c.oi] = cl
				continue
			}
			ops := ep.Tasks[tj].Ops
			k := g.R.N(len(ops) + 1)
			ops = append(ops, Op{})
			copy(ops[k+1:], ops[k:])
			ops[k] = cl
			ep.Tasks[tj].Ops = ops
		}
	}
}

func cloneOp(op *Op) Op {
	c := *op
	c.D = append([]string(nil), op.D...)
	c.I = append([]int64(nil), op.I...)
	c.S = append([]string(nil), op.S...)
	c.B = append([]string(nil), op.B...)
	c.Pre, c.PreLock, c.After = nil, nil, nil
	return c
}

func (g *Gen) sharedPool(p *Program, maxBits int) {
	for i := 0; i < 3; i++ {
		p.Pool.Ints = append(p.Pool.Ints, g.BigInt(maxBits).Text(16))
		p.Pool.Rats = append(p.Pool.Rats, g.Rat().String())
		p.Pool.Floats = append(p.Pool.Floats, g.FloatSpec())
	}
}

func (g *Gen) epochMode(nonDefault int) uint8 {
	if g.R.P(nonDefault, 10) {
		return uint8(g.R.Range(1, 5))
	}
	return 0
}

// tasksOf builds nt tasks of 1..maxOps operations drawn from kinds.
func (g *Gen) tasksOf(p *Program, nt, maxOps int, kinds []string, weights []int) []TaskProg {
	var ts []TaskProg
	for t := 0; t < nt; t++ {
		tp := TaskProg{Priv: g.privSpec()}
		n := g.R.Range(1, maxOps)
		for i := 0; i < n; i++ {
			var k string
			if weights != nil {
				k = kinds[g.R.Pick(weights)]
			} else {
				k = kinds[g.R.N(len(kinds))]
			}
			tp.Ops = append(tp.Ops, g.fill(k, p))
		}
		ts = append(ts, tp)
	}
	return ts
}

// ---------- P20 ----------

// p20Kinds: every exported entry point is reachable through one of these.
var p20Kinds = []string{
	"Abs", "Cbrt", "Ceil", "Exp", "Exp10", "Exp2", "Expm1", "Floor", "Log", "Log10", "Log1p", "Log2", "Round", "Sqrt", "Trunc",
	"Canonical", "Neg", "Add", "Sub", "Mul", "Quo", "Pow", "Max", "Min", "ModeTwin",
	"AddWithMode", "SubWithMode", "MulWithMode", "QuoWithMode", "PowWithMode", "QuoRem", "QuoRemWithMode",
	"Cmp", "CmpAbs", "CmpResult", "Equal", "Compare", "CeilDP", "FloorDP", "RoundDP",
	"IsInf", "IsNaN", "IsZero", "Signbit", "Sign", "Payload", "PayloadString", "RoundingModeString", "Const",
	"New", "Ldexp", "Frexp", "FromFloat64", "FromFloat32", "Float64", "Float32",
	"FromInt64", "FromInt32", "FromUint64", "FromUint32", "FromInt", "FromRat", "FromFloat",
	"Int", "Rat", "Float", "Int64", "Int32", "Uint64", "Uint32",
	"MarshalBinary", "UnmarshalBinary", "Parse", "MustParse", "UnmarshalText", "Sscan", "ScanState",
	"String", "MarshalText", "TextRT", "FormatFn", "AppendFn", "AppendM", "Sprintf", "FormatState",
	"MarshalJSON", "UnmarshalJSON", "JSONRT", "JSONDoc", "Decompose", "ComposeRow", "Compose",
	"JSONRT2",
}

func genP20(g *Gen, p *Program) {
	g.sharedPool(p, 20000)
	g.wildSpecs = true
	for i := 0; i < 3; i++ {
		g.lits = append(g.lits, g.Literal(false))
	}
	// swarm: this run only uses a few operation kinds, so tasks collide on
	// the same code and the same shared inputs
	nk := g.R.Range(2, 8)
	var kinds []string
	for i := 0; i < nk; i++ {
		kinds = append(kinds, p20Kinds[g.R.N(len(p20Kinds))])
	}
	if g.R.P(1, 3) {
		kinds = append(kinds, []string{"FromInt", "FromRat", "FromFloat"}[g.R.N(3)])
	}
	if g.R.P(1, 4) {
		kinds = append(kinds, "Scribble")
	}
	ne := g.R.Range(1, 3)
	for e := 0; e < ne; e++ {
		mode := uint8(g.R.N(6))
		if g.R.P(1, 30) {
			mode = uint8(g.R.Range(6, 255))
		}
		if g.R.P(1, 2) {
			mode = 0
		}
		ep := Epoch{Mode: mode}
		ep.Tasks = g.tasksOf(p, g.R.Range(2, 5), 5, kinds, nil)
		p.Epochs = append(p.Epochs, ep)
	}
}

// ---------- P10 ----------

func genP10(g *Gen, p *Program) {
	g.sharedPool(p, 20000)
	kinds := []string{"FromInt64", "FromInt32", "FromUint64", "FromUint32", "FromInt", "FromRat", "Int", "Rat", "Int64", "Int32", "Uint64", "Uint32"}
	weights := []int{1, 1, 1, 1, 3, 3, 4, 4, 2, 2, 2, 2}
	// values near the bounds of the fixed-width types
	for i := 0; i < 3; i++ {
		g.decs = append(g.decs, g.boundDec())
	}
	ne := g.R.Range(1, 2)
	for e := 0; e < ne; e++ {
		ep := Epoch{Mode: g.epochMode(2)}
		ep.Tasks = g.tasksOf(p, g.R.Range(1, 3), 8, kinds, weights)
		p.Epochs = append(p.Epochs, ep)
	}
}

// keptPrefixSpec replaces, in one call of ten, the operand and the directive
// of a formatting operation by a pair drawn together (keptPrefix).
func (g *Gen) keptPrefixSpec(op *Op) {
	if !g.R.P(1, 10) {
		return
	}
	dec, verb, prec := g.keptPrefix()
	var flags string
	for _, c := range "+-# 0" {
		if g.R.P(1, 6) {
			flags += string(c)
		}
	}
	w := ""
	if g.R.P(1, 3) {
		w = fmt.Sprint(g.R.Range(1, 45))
	}
	op.D = []string{dec}
	op.S = []string{fmt.Sprintf("%s%s.%d%c", flags, w, prec, verb)}
}

// boundDec returns a Decimal near a bound of int32/int64/uint32/uint64 or
// just below an integer.
func (g *Gen) boundDec() string {
	bounds := []string{"2147483647", "2147483648", "4294967295", "4294967296", "9223372036854775807", "9223372036854775808", "18446744073709551615", "18446744073709551616", "0", "1",
		"1000000000", "10000000000", "1000000000000000000", "10000000000000000000", "100000000000000000000", "2000000000", "4000000000", "5000000000",
		"9000000000000000000", "18000000000000000000", "20000000000000000000", "9300000000000000000", "18446744073709551610", "9223372036854775800"}
	if g.R.P(1, 8) {
		// a coefficient m*2^j with a positive exponent e: the scaled integer
		// m*5^e*2^(j+e) is a multiple of 2^64 or 2^128
		j := uint(g.R.Range(40, 113))
		c := new(big.Int).Lsh(big.NewInt(int64(1+g.R.N(8))), j)
		if c.Cmp(ref.CMax) > 0 {
			c.Lsh(big.NewInt(1), j)
		}
		return Hex(DecOf(ref.Num{Neg: g.R.P(1, 2), Coef: c, Exp: g.R.Range(0, 40)}))
	}
	b := bounds[g.R.N(len(bounds))]
	s := b
	switch g.R.N(5) {
	case 0:
		s = b + "." + strings.Repeat("9", g.R.Range(1, 14))
	case 1:
		s = b + ".5"
	case 2:
		s = b + strings.Repeat("0", g.R.N(3)) + "e-" + fmt.Sprint(g.R.N(3))
	case 3:
		s = "0." + strings.Repeat("0", g.R.N(40)) + g.digits(g.R.Range(1, 5))
	}
	if g.R.P(1, 2) {
		s = "-" + s
	}
	if g.R.P(1, 3) {
		return g.cohortMember(s)
	}
	lit := parseLitForGen(s)
	return lit
}

// cohortMember returns a random encoding (coefficient with fewer or more
// trailing zeros, exponent adjusted) of the value a literal denotes.
func (g *Gen) cohortMember(lit string) string {
	n := NumOf(ParseHex(parseLitForGen(lit)))
	if n.Class != ref.Finite || n.Coef.Sign() == 0 {
		return Hex(DecOf(n))
	}
	c := new(big.Int).Set(n.Coef)
	e := n.Exp
	// strip all trailing zeros, then put some back
	for {
		q, r := new(big.Int).QuoRem(c, big.NewInt(10), new(big.Int))
		if r.Sign() != 0 {
			break
		}
		c, e = q, e+1
	}
	k := g.R.N(36)
	switch g.R.N(4) {
	case 0:
		k = 0 // shortest coefficient
	case 1:
		k = 36 // longest coefficient that fits
	}
	for ; k > 0; k-- {
		t := new(big.Int).Mul(c, big.NewInt(10))
		if t.Cmp(ref.CMax) > 0 || e-1 < ref.MinExp {
			break
		}
		c, e = t, e-1
	}
	if e > ref.MaxExp {
		return Hex(DecOf(n))
	}
	return Hex(DecOf(ref.Num{Neg: n.Neg, Coef: c, Exp: e}))
}

// ProcessHashKey is the VERIF_HASHKEY of this process (set by the worker
// before the first call into the library).
var ProcessHashKey uint64

// stampSeams records what the stand-ins for randomness and time depend on.
// Nothing is drawn from the generator's PRNG, so programs for trees that use
// neither (the pinned tree) are unchanged.
func stampSeams(p *Program) {
	if len(decimal128.VerifShims) > 0 {
		p.HashKey = ProcessHashKey
	}
	if decimal128.VerifClockSites > 0 && p.Run%3 != 0 {
		p.ClockSeed = (p.Seed+1)*0x9e3779b97f4a7c15 ^ (p.Run+1)*0xbf58476d1ce4e5b9 | 1
	}
}
