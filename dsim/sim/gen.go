package sim

import (
	"encoding/hex"
	"fmt"
	"math"
	"math/big"
	"sort"
	"strings"

	"dsim/ref"
)

// Gen produces operands and programs from the seeded generator.
type Gen struct {
	R *Rng
	// per-run operand pools (swarm: few values, so that tasks collide on them)
	decs      []string
	lits      []string
	jlits     []string // recurring JSON number tokens (P13)
	heavy     bool     // rare runs with extreme arguments
	wildSpecs bool     // also produce malformed format directives (P20: totality)
	focus     bool     // a focus program: the tree has new shared state, schedules lean towards synchronisation events
}

func hx(b []byte) string { return hex.EncodeToString(b) }

// ---------- Decimals ----------

func (g *Gen) digits(n int) string {
	var b strings.Builder
	for i := 0; i < n; i++ {
		c := byte('0' + g.R.N(10))
		if i == 0 && c == '0' {
			c = '1' + byte(g.R.N(9))
		}
		b.WriteByte(c)
	}
	return b.String()
}

func (g *Gen) coefLen() int {
	switch g.R.N(10) {
	case 0, 1, 2:
		return g.R.Range(1, 4)
	case 3, 4:
		return g.R.Range(15, 21)
	case 5, 6, 7:
		return g.R.Range(32, 35)
	}
	return g.R.Range(1, 35)
}

func (g *Gen) coef() *big.Int {
	c := new(big.Int)
	switch g.R.N(12) {
	case 0: // neighbours of CMax
		c.Sub(ref.CMax, big.NewInt(int64(g.R.N(12))))
	case 1: // all nines
		c.Sub(ref.Pow10(g.coefLen()), big.NewInt(1))
	case 2: // power of ten
		c.Set(ref.Pow10(g.R.N(35)))
	case 3: // digits followed by zeros
		l := g.coefLen()
		z := g.R.N(l)
		c.SetString(g.digits(l-z)+strings.Repeat("0", z), 10)
	case 4: // 5 followed by zeros: ties when formatted
		l := g.coefLen()
		c.SetString(g.digits(l-1)+"5", 10)
		if g.R.P(1, 2) {
			c.Mul(c, ref.Pow10(g.R.N(4)))
		}
	case 5: // neighbours of 10^34 and 2^113
		if g.R.P(1, 2) {
			c.Set(ref.Pow10(34))
		} else {
			c.Lsh(big.NewInt(1), 113)
		}
		c.Add(c, big.NewInt(int64(g.R.N(7)-3)))
	case 6: // small integers
		c.SetInt64(int64(g.R.N(1000)))
	case 7: // a run of zeros in the middle (digit chunking, zero stripping)
		l := g.R.Range(12, 35)
		b := []byte(g.digits(l))
		z := g.R.Range(2, l-2)
		at := g.R.N(l - z)
		if at == 0 {
			at = 1
		}
		for i := at; i < at+z && i < l-1; i++ {
			b[i] = '0'
		}
		c.SetString(string(b), 10)
	case 8: // a quotient by a power of ten sits at a binary word boundary
		// (digit extraction divides repeatedly; the words of the intermediate
		// quotients, not of the input, are what a narrow division sees)
		x := new(big.Int)
		switch g.R.N(3) {
		case 0:
			x.SetUint64(uint64(g.R.N(1000)))
		case 1:
			x.SetUint64(g.R.U64() >> uint(g.R.N(64)))
		default:
			x.SetUint64(uint64(g.R.N(100)))
		}
		x.Lsh(x, 64)
		var lo uint64
		d := uint64(g.R.N(2048))
		switch g.R.N(4) {
		case 0:
			lo = d
		case 1:
			lo = 1<<63 - 1024 + d
		case 2:
			lo = 1<<32 - 1024 + d
		default:
			lo = -d - 1
		}
		x.Add(x, new(big.Int).SetUint64(lo))
		k := 0
		if room := 34 - ref.NumDigits(x); room > 0 {
			k = g.R.N(room + 1)
		}
		c.Mul(x, ref.Pow10(k))
		if k > 0 {
			r := new(big.Int)
			r.SetString(g.digits(k), 10)
			c.Add(c, r)
		}
	case 9: // multiples of a high power of two: scaled by 10^e (= 5^e * 2^e)
		// the product is a multiple of 2^128 or 2^64, i.e. wraps to zero or to
		// something small in fixed-width arithmetic
		j := uint(g.R.Range(40, 113))
		m := int64(1)
		if room := 112 - int(j); room > 0 {
			m = 1 + int64(g.R.U64()>>1)%(int64(1)<<uint(min(room, 20)))
		}
		c.Lsh(big.NewInt(m), j)
	case 10: // the leading digits of the decimal expansion of 2^k + j*2^64:
		// printed positionally with enough trailing zeros, the numeral read
		// back digit by digit crosses a binary word boundary of an accumulator
		k := []uint{64, 128, 128, 192}[g.R.N(4)]
		x := new(big.Int).Lsh(big.NewInt(1), k)
		x.Add(x, new(big.Int).Lsh(big.NewInt(int64(g.R.N(100))), 64))
		ds := x.String()
		if l := g.R.Range(17, 34); l < len(ds) {
			ds = ds[:l]
		}
		if len(ds) > 34 {
			ds = ds[:34]
		}
		c.SetString(ds, 10)
	default:
		c.SetString(g.digits(g.coefLen()), 10)
	}
	if c.Sign() < 0 {
		c.SetInt64(0)
	}
	if c.Cmp(ref.CMax) > 0 {
		c.Set(ref.CMax)
	}
	return c
}

// layoutExps are exponents of the leading digit at which a rendering changes
// shape: the %v/%g and JSON switch-over points and the places where the
// printed exponent gains a digit.
var layoutExps = []int{-1001, -1000, -999, -101, -100, -99, -11, -10, -9, -7, -6, -5, -4, -1, 0, 1, 5, 6, 9, 10, 19, 20, 21, 99, 100, 101, 999, 1000, 1001}

func (g *Gen) exp(c *big.Int) int {
	nd := ref.NumDigits(c)
	if g.R.P(1, 9) {
		return layoutExps[g.R.N(len(layoutExps))] - nd + 1
	}
	switch g.R.N(10) {
	case 0:
		return ref.MinExp + g.R.N(45)
	case 1:
		return ref.MaxExp - g.R.N(45)
	case 2, 3, 4: // value near 1: leading digit exponent in -8..8
		return -nd + 1 + g.R.Range(-8, 8)
	case 5: // around the int64/uint64 bounds
		return 19 - nd + g.R.Range(-2, 2)
	case 6:
		return g.R.Range(-45, 45)
	case 7:
		return -nd + 1 + g.R.Range(-400, 330)
	}
	return g.R.Range(ref.MinExp, ref.MaxExp)
}

// Dec returns a boundary-biased Decimal as hex.
func (g *Gen) Dec() string {
	switch g.R.N(20) {
	case 0: // NaN with payload
		hi := uint64(0x7c)<<56 | g.R.U64()&0x03ffffffffffffff
		if g.R.P(1, 3) {
			hi = 0x7c << 56
		}
		if g.R.P(1, 2) {
			hi |= 1 << 63
		}
		lo := g.R.U64()
		if g.R.P(1, 2) {
			lo = uint64(g.R.N(40))
		}
		return fmt.Sprintf("%016x%016x", hi, lo)
	case 1: // infinities, sometimes with garbage bits
		hi := uint64(0x78) << 56
		var lo uint64
		if g.R.P(1, 3) {
			hi |= g.R.U64() & 0x03ffffffffffffff
			lo = g.R.U64()
		}
		if g.R.P(1, 2) {
			hi |= 1 << 63
		}
		return fmt.Sprintf("%016x%016x", hi, lo)
	case 2: // zeros with any exponent
		n := ref.Num{Neg: g.R.P(1, 2), Coef: new(big.Int), Exp: g.R.Range(ref.MinExp, ref.MaxExp)}
		if g.R.P(1, 2) {
			n.Exp = 0
		}
		return Hex(DecOf(n))
	case 3: // arbitrary bit pattern
		return fmt.Sprintf("%016x%016x", g.R.U64(), g.R.U64())
	}
	c := g.coef()
	n := ref.Num{Neg: g.R.P(2, 5), Coef: c, Exp: g.exp(c)}
	if n.Exp < ref.MinExp {
		n.Exp = ref.MinExp
	}
	if n.Exp > ref.MaxExp {
		n.Exp = ref.MaxExp
	}
	return Hex(DecOf(n))
}

// FiniteDec returns a finite Decimal.
func (g *Gen) FiniteDec() string {
	for {
		d := g.Dec()
		if !isSpecBits(ParseHex(d)) {
			return d
		}
	}
}

// PoolDec draws from the run's small operand pool.
func (g *Gen) PoolDec() string {
	if len(g.decs) == 0 || g.R.P(1, 8) {
		return g.Dec()
	}
	return g.decs[g.R.N(len(g.decs))]
}

// ---------- literals ----------

func (g *Gen) litDigits(n int, underscores bool) string {
	var b strings.Builder
	for i := 0; i < n; i++ {
		if underscores && i > 0 && g.R.P(1, 9) {
			b.WriteByte('_')
		}
		b.WriteByte(byte('0' + g.R.N(10)))
	}
	return b.String()
}

func (g *Gen) litLen() int {
	switch g.R.N(16) {
	case 0, 1, 2, 3, 4:
		return g.R.Range(1, 6)
	case 5, 6:
		return g.R.Range(17, 22)
	case 7, 8, 9, 10:
		return g.R.Range(33, 41)
	case 11, 12:
		return g.R.Range(42, 120)
	case 13:
		if g.heavy {
			return g.R.Range(30000, 70000)
		}
		return g.R.Range(100, 400)
	}
	return g.R.Range(1, 40)
}

func (g *Gen) expDigits() string {
	var e int
	switch g.R.N(12) {
	case 0, 1, 2:
		e = g.R.N(40)
	case 3, 4:
		e = 6100 + g.R.N(140)
	case 5:
		e = 6176 + g.R.Range(-45, 45)
	case 6:
		e = g.R.N(7000)
	case 7: // very large written exponents (beyond any fixed-width counter)
		return g.digits(g.R.Range(5, 26))
	case 8: // around int16 wrap
		e = 32768 + g.R.Range(-70, 70)
		if g.R.P(1, 2) {
			e = 65536 + g.R.Range(-7000, 7000)
		}
	default:
		e = g.R.N(400)
	}
	s := fmt.Sprint(e)
	if g.R.P(1, 8) {
		s = strings.Repeat("0", g.R.Range(1, 4)) + s
	}
	return s
}

// ValidLiteral builds a string in the documented syntax.
func (g *Gen) ValidLiteral(scan bool, underscores bool) string {
	if g.R.P(1, 14) {
		w := []string{"nan", "inf", "infinity"}[g.R.N(3)]
		if scan && w == "infinity" {
			w = "inf"
		}
		var b strings.Builder
		for i := 0; i < len(w); i++ {
			c := w[i]
			if g.R.P(1, 2) {
				c -= 32
			}
			b.WriteByte(c)
		}
		s := b.String()
		if w != "nan" && g.R.P(1, 2) {
			s = string("+-"[g.R.N(2)]) + s
		}
		return s
	}
	var b strings.Builder
	if g.R.P(2, 5) {
		b.WriteByte("+-"[g.R.N(2)])
	}
	us := underscores && g.R.P(1, 4)
	dotted := false
	switch g.R.N(9) {
	case 0: // exact tie or near-tie at the 34/35 digit boundary
		l := g.R.Range(33, 35)
		b.WriteString(g.digits(l))
		switch g.R.N(4) {
		case 0:
			b.WriteString("5")
		case 1:
			b.WriteString("5" + strings.Repeat("0", g.R.N(30)) + "1")
		case 2:
			b.WriteString("4" + strings.Repeat("9", g.R.N(30)))
		case 3:
			b.WriteString("5" + strings.Repeat("0", g.R.N(30)))
		}
	case 1: // leading zeros
		b.WriteString(strings.Repeat("0", g.R.Range(1, 50)))
		b.WriteString(g.litDigits(g.litLen(), us))
	case 4: // decimal expansions around powers of two (word boundaries of binary accumulators)
		k := []uint{32, 53, 63, 64, 96, 113, 127, 128, 129, 192, 256}[g.R.N(11)]
		c := new(big.Int).Lsh(big.NewInt(1), k)
		switch g.R.N(4) {
		case 0:
			c.Sub(c, big.NewInt(int64(g.R.Range(1, 3))))
		case 1:
			c.Add(c, new(big.Int).Lsh(big.NewInt(int64(g.R.N(100))), 64))
		case 2:
			c.Add(c, big.NewInt(int64(g.R.N(1000))))
		}
		ds := c.String()
		if g.R.P(1, 2) {
			ds += g.litDigits(g.R.N(12), false)
		}
		// the point and digit separators at any position of the expansion
		// (block-wise accumulation restarts after them, so the block that
		// crosses the word boundary can be any of them)
		if len(ds) > 2 && g.R.P(1, 2) {
			if underscores && g.R.P(1, 2) {
				for k := g.R.Range(1, 3); k > 0; k-- {
					i := g.R.Range(1, len(ds)-1)
					if ds[i-1] != '_' && ds[i] != '_' && ds[i-1] != '.' && ds[i] != '.' {
						ds = ds[:i] + "_" + ds[i:]
					}
				}
			}
			if g.R.P(2, 3) {
				i := g.R.Range(1, len(ds)-1)
				if ds[i-1] != '_' && ds[i] != '_' {
					ds = ds[:i] + "." + ds[i:]
					dotted = true
				}
			}
		}
		b.WriteString(ds)
	case 2: // coefficient around CMax
		c := new(big.Int).Add(ref.CMax, big.NewInt(int64(g.R.Range(-3, 3))))
		b.WriteString(c.String())
		if g.R.P(1, 2) {
			b.WriteString(g.litDigits(g.R.N(4), false))
		}
	case 3: // zero significand, any exponent
		b.WriteString(strings.Repeat("0", g.R.Range(1, 3)))
	default:
		b.WriteString(g.litDigits(g.litLen(), us))
	}
	if !dotted && g.R.P(1, 2) {
		b.WriteByte('.')
		n := g.litLen()
		if g.R.P(1, 6) {
			b.WriteString(strings.Repeat("0", g.R.Range(1, 60)))
		}
		if n == 0 {
			n = 1
		}
		b.WriteString(g.litDigits(n, us))
	}
	if g.R.P(3, 5) {
		b.WriteByte("eE"[g.R.N(2)])
		if g.R.P(2, 3) {
			b.WriteByte("+-"[g.R.N(2)])
		}
		b.WriteString(g.expDigits())
	}
	return b.String()
}

var nearMiss = []string{"", ".", "-.", "+.", "-", "+", "1_.5", "1._5", "1_e5", "1e", "1e+", "1e-", "--1", "+-1", "1__0", "_1", "1_", "1e5_", "1e_5",
	"1..2", "1.2.3", ".e5", "e5", "1e5e5", "1e5.5", "infinit", "in", "na", "nan1", "+nan_", "0x10", "1f", "１", "1e+-5", "1 ", " 1", "1,5", "._1", "-_1", "1e+_5"}

// InvalidLiteral builds a string outside the documented syntax, close to it.
func (g *Gen) InvalidLiteral(scanAlphabetOnly bool) string {
	for tries := 0; tries < 50; tries++ {
		var s string
		switch g.R.N(7) {
		case 6:
			s = g.LookAlike()
		case 0, 1:
			s = nearMiss[g.R.N(len(nearMiss))]
		case 2: // insert a character of the alphabet somewhere in a valid literal
			v := g.ValidLiteral(true, true)
			i := g.R.N(len(v) + 1)
			s = v[:i] + string("_.eE+-"[g.R.N(6)]) + v[i:]
		case 3: // delete a character
			v := g.ValidLiteral(true, true)
			i := g.R.N(len(v))
			s = v[:i] + v[i+1:]
		case 4: // arbitrary bytes
			n := g.R.Range(1, 12)
			b := make([]byte, n)
			for i := range b {
				if scanAlphabetOnly {
					b[i] = "0123456789._eE+-"[g.R.N(16)]
				} else {
					b[i] = byte(g.R.N(256))
				}
			}
			s = string(b)
			if !scanAlphabetOnly && g.R.P(1, 3) {
				s = g.ByteRun()
			}
		case 5: // duplicate a character
			v := g.ValidLiteral(true, true)
			i := g.R.N(len(v))
			s = v[:i+1] + v[i:]
			if g.R.P(1, 2) && !scanAlphabetOnly {
				// replace one byte, preferably by a neighbour of the digits in
				// the character set or by something a table lookup or a bit trick
				// might mistake for a digit
				i = g.R.N(len(v))
				c := []byte{'/', ':', ';', '<', '=', '>', '?', '@', 'a', 'f', 'x', ',', 0xb0, 0xb9, 0x10, 0x19, ' ', 0}[g.R.N(18)]
				if g.R.P(1, 4) {
					c = byte(g.R.N(256))
				}
				s = v[:i] + string([]byte{c}) + v[i+1:]
			}
		}
		if scanAlphabetOnly && (!scanAlphabet(s) || strings.ContainsAny(s, " \n\t\r") || s == "") {
			continue
		}
		if ref.ParseLiteral(s, ref.LitOpts{}).Status == ref.LitInvalid {
			return s
		}
	}
	return "1__0"
}

// ByteRun returns a byte string that is mostly one long run of bytes of one
// class (UTF-8 continuation bytes, lead bytes without continuation, 0xFF,
// NUL, spaces, signs, dots, one repeated letter): what a scan for a rune
// boundary, a delimiter or the end of a token walks over. Lengths cluster
// around the sizes at which such code abbreviates, chunks or gives up.
func (g *Gen) ByteRun() string {
	lens := []int{1, 7, 8, 9, 15, 16, 17, 31, 32, 33, 63, 64, 65, 66, 127, 128, 129, 255, 256, 257, 300, 1000}
	n := lens[g.R.N(len(lens))]
	if g.R.P(1, 4) {
		n = g.R.Range(1, 400)
	}
	var class []byte
	switch g.R.N(9) {
	case 0:
		class = []byte{0x80, 0xbf, 0x9a, 0xa0}
	case 1:
		class = []byte{0xc2, 0xe2, 0xf0, 0xf4}
	case 2:
		class = []byte{0xff}
	case 3:
		class = []byte{0}
	case 4:
		class = []byte{' ', '\t', '\n'}
	case 5:
		class = []byte{'-', '+'}
	case 6:
		class = []byte{'.'}
	case 7:
		class = []byte{"eEnNiIaAfFxX_"[g.R.N(13)]}
	default:
		class = []byte{byte(g.R.N(256))}
	}
	b := make([]byte, n)
	one := class[g.R.N(len(class))]
	mixed := g.R.P(1, 3)
	for i := range b {
		b[i] = one
		if mixed {
			b[i] = class[g.R.N(len(class))]
		}
	}
	s := string(b)
	// sometimes a numeral in front of, behind or in the middle of the run
	switch g.R.N(6) {
	case 0:
		s = g.digits(g.R.Range(1, 5)) + s
	case 1:
		s = s + g.digits(g.R.Range(1, 5))
	case 2:
		i := g.R.N(len(s) + 1)
		s = s[:i] + g.digits(g.R.Range(1, 3)) + s[i:]
	}
	return s
}

// LookAlike returns a numeral in which one or two bytes were replaced by
// bytes that a table lookup, a nibble test or word-at-a-time digit
// arithmetic might take for a digit: the neighbours of '0'..'9' in the
// character set, bytes that share a nibble with a digit, digits with the top
// bit set. Mostly plain digit strings of 1 to 40 bytes (the lengths at which
// block-wise conversions switch), sometimes with sign, fraction, exponent.
func (g *Gen) LookAlike() string {
	var v string
	if g.R.P(2, 3) {
		v = g.digits(g.R.Range(1, 40))
		if g.R.P(1, 4) {
			v = "-" + v
		}
	} else {
		v = g.ValidLiteral(true, true)
	}
	b := []byte(v)
	for n := g.R.Range(1, 2); n > 0; n-- {
		i := g.R.N(len(b))
		var c byte
		switch g.R.N(6) {
		case 0, 1:
			c = byte(0x3a + g.R.N(6)) // : ; < = > ?
		case 2:
			c = []byte{'/', '.', '-', '+', ',', '*'}[g.R.N(6)] // 0x2a..0x2f
		case 3:
			c = byte(g.R.N(16))<<4 | byte(g.R.N(10)) // low nibble of a digit
		case 4:
			c = 0x30 | byte(10+g.R.N(6)) | byte(g.R.N(2))<<7
		default:
			c = byte('0'+g.R.N(10)) | 0x80
		}
		b[i] = c
	}
	return string(b)
}

// ScanNearMiss builds a white-space free token that is not made of Scan's own
// alphabet: look-alikes of Inf/NaN with a non-ASCII rune whose low byte is the
// expected letter, special words with something attached, numerals followed
// by other characters.
func (g *Gen) ScanNearMiss() string {
	sign := []string{"", "", "+", "-"}[g.R.N(4)]
	word := []string{"inf", "nan", "Inf", "NaN", "INF", "NAN", "iNf", "nAn"}[g.R.N(8)]
	switch g.R.N(7) {
	case 0, 1: // a letter replaced by a rune with the same low byte
		rs := []rune(word)
		i := g.R.N(3)
		rs[i] = rune(0x100*g.R.Range(1, 0x2ff)) + rs[i]
		return sign + string(rs)
	case 2: // a letter replaced by an arbitrary rune
		rs := []rune(word)
		rs[g.R.N(3)] = []rune{'1', 'x', 'é', 'ſ', 'İ', 'ı', 'K', 'ƒ', '０'}[g.R.N(9)]
		return sign + string(rs)
	case 3: // something attached to a special word
		return sign + word + []string{"x", "inity", "1", ".", "f", "é", "_"}[g.R.N(7)]
	case 4: // truncated special word
		return sign + word[:g.R.Range(1, 2)] + []string{"", "x", "é"}[g.R.N(3)]
	case 5: // numeral followed by other characters
		if g.R.P(1, 2) {
			return g.ValidLiteral(true, false) + []string{"x", "é", ",", "f", "p3", "İ", "%"}[g.R.N(7)]
		}
		return g.ValidLiteral(true, false) + string(g.followerRune())
	}
	// other characters in front
	return []string{"x", "é", "$", "#", "０"}[g.R.N(5)] + g.ValidLiteral(true, false)
}

// followerRune draws a character that may directly follow a numeral in a
// text: any rune, with weight on those that alias a character of the numeral
// alphabet when truncated to a byte or folded (a classifier that looks at
// byte(r), r&0x7f or a case/width fold sees a digit, a sign or an 'e').
func (g *Gen) followerRune() rune {
	const alphabet = "0123456789.eE+-_"
	for {
		var r rune
		switch g.R.N(5) {
		case 0:
			r = rune(alphabet[g.R.N(len(alphabet))]) + rune(0x100*g.R.Range(1, 0x10ff))
		case 1:
			r = rune(alphabet[g.R.N(len(alphabet))]) + rune(0x80*g.R.Range(1, 0x1ff))
		case 2: // full-width and other digit look-alikes
			r = []rune{'０', '９', '．', 'ｅ', '＋', '－', '٣', '𝟗', '₅', '⁵', '−', '‐'}[g.R.N(12)]
		case 3:
			r = rune(g.R.Range(0x80, 0xffff))
		default:
			r = rune(g.R.Range(0x10000, 0x10ffff))
		}
		if r >= 0x80 && r <= 0x10ffff && (r < 0xd800 || r > 0xdfff) && r != 0x85 && r != 0xa0 && r != 0x1680 && !(r >= 0x2000 && r <= 0x200a) && r != 0x2028 && r != 0x2029 && r != 0x202f && r != 0x205f && r != 0x3000 {
			return r // (Unicode spaces end a token in package fmt; not drawn)
		}
	}
}

// Literal mixes valid and invalid strings.
func (g *Gen) Literal(scan bool) string {
	if len(g.lits) > 0 && g.R.P(1, 3) {
		return g.lits[g.R.N(len(g.lits))]
	}
	if scan && g.R.P(1, 8) {
		return g.ScanNearMiss()
	}
	if g.R.P(3, 4) {
		return g.ValidLiteral(scan, true)
	}
	return g.InvalidLiteral(scan)
}

// ---------- format specs ----------

// garbageSpec returns a directive the way a careless or hostile caller might
// write it: the property promises totality for any format spec.
func (g *Gen) garbageSpec() string {
	switch g.R.N(10) {
	case 0:
		return ""
	case 1:
		return strings.Repeat(string("+-# 0"[g.R.N(5)]), g.R.Range(1, 40)) + "f"
	case 2:
		return g.digits(g.R.Range(5, 30)) + "." + g.digits(g.R.Range(5, 30)) + string("eEfFgGv"[g.R.N(7)])
	case 3:
		return "." + string("eEfFgGv"[g.R.N(7)])
	case 4:
		return g.digits(g.R.Range(1, 7)) // no verb
	case 5:
		return "..5f"
	case 6:
		return "5.-3f"
	case 7:
		return string("dsxqtTpbcoUX%!"[g.R.N(14)])
	case 8:
		b := make([]byte, g.R.Range(1, 12))
		for i := range b {
			b[i] = byte(g.R.N(256))
		}
		return string(b)
	}
	return "100000.100000" + string("eEfFgG"[g.R.N(6)])
}

func (g *Gen) Spec(verbs string, maxWP int) string {
	if g.wildSpecs && g.R.P(1, 10) {
		return g.garbageSpec()
	}
	var flags []byte
	for _, c := range []byte("+-# 0") {
		if g.R.P(1, 4) {
			flags = append(flags, c)
		}
	}
	// fmt accepts flags in any order
	for i := len(flags) - 1; i > 0; i-- {
		j := g.R.N(i + 1)
		flags[i], flags[j] = flags[j], flags[i]
	}
	// a '0' flag after other flags and before the width is fine; a '0' in the
	// middle is still a flag
	var b strings.Builder
	b.Write(flags)
	if g.R.P(1, 2) {
		w := g.R.N(maxWP + 1)
		if w > 0 {
			fmt.Fprint(&b, w)
		}
	}
	if g.R.P(2, 3) {
		b.WriteByte('.')
		if !g.R.P(1, 10) {
			fmt.Fprint(&b, g.R.N(maxWP+1))
		}
	}
	b.WriteByte(verbs[g.R.N(len(verbs))])
	return b.String()
}

// keptPrefix returns a Decimal together with a verb and a precision such that
// the digits the precision keeps, read as an integer, sit at a binary word
// boundary (2^32, 2^63, 2^64 ... minus one, plus or minus a little) and the
// dropped tail is a tie, just above or below one, or arbitrary: what rounding
// done in binary integer arithmetic (quotient, compare the remainder,
// increment) sees as its carry out of a word. The value and the precision
// have to be drawn together; independent draws meet with probability 2^-64.
func (g *Gen) keptPrefix() (dec string, verb byte, prec int) {
	base := new(big.Int).Lsh(big.NewInt(1), []uint{31, 32, 53, 63, 64, 64, 64, 96}[g.R.N(8)])
	x := new(big.Int)
	if g.R.P(2, 3) {
		x.Sub(base, big.NewInt(int64(1+g.R.N(3)/2)))
	} else {
		x.Add(base, big.NewInt(int64(g.R.N(2))))
	}
	nd := ref.NumDigits(x)
	k := g.R.Range(1, 34-nd)
	var tail string
	switch g.R.N(5) {
	case 0:
		tail = "5" + strings.Repeat("0", k-1)
	case 1:
		tail = "5" + strings.Repeat("0", k-1)
		if k > 1 {
			tail = tail[:k-1] + "1"
		}
	case 2:
		tail = "4" + strings.Repeat("9", k-1)
	case 3:
		tail = strings.Repeat("9", k)
	default:
		tail = g.digits(k)
		if len(tail) < k {
			tail = strings.Repeat("0", k-len(tail)) + tail
		}
	}
	c := new(big.Int)
	c.SetString(x.String()+tail[:k], 10)
	verb = "eEgGfF"[g.R.N(6)]
	e := 0
	switch verb {
	case 'e', 'E':
		prec = nd - 1
		e = g.exp(c)
	case 'g', 'G':
		prec = nd
		e = g.exp(c)
	default:
		prec = g.R.N(12)
		e = -k - prec
	}
	if e < ref.MinExp {
		e = ref.MinExp
	}
	if e > ref.MaxExp {
		e = ref.MaxExp
	}
	return Hex(DecOf(ref.Num{Neg: g.R.P(1, 3), Coef: c, Exp: e})), verb, prec
}

// ---------- caller-owned objects ----------

func (g *Gen) BufSpec() BufSpec {
	var data []byte
	if g.R.P(2, 3) {
		n := g.R.N(24)
		data = make([]byte, n)
		for i := range data {
			data[i] = "abcxyz0123456789 -+.e"[g.R.N(21)]
		}
	}
	c := len(data)
	switch g.R.N(5) {
	case 0: // exact fit
	case 1:
		c += g.R.N(4)
	case 2:
		c += g.R.Range(8, 20)
	default:
		c += g.R.Range(20, 120)
	}
	return BufSpec{Data: hx(data), Cap: c, Fill: byte(g.R.N(256))}
}

func (g *Gen) BigInt(maxBits int) *big.Int {
	var bits int
	switch g.R.N(8) {
	case 0:
		bits = g.R.N(8)
	case 1:
		bits = 64 + g.R.Range(-2, 2)
	case 2:
		bits = 128 + g.R.Range(-3, 3)
	case 3:
		bits = 256 + g.R.Range(-3, 3)
	case 4:
		bits = 113 + g.R.Range(-3, 3)
	default:
		bits = g.R.N(maxBits + 1)
		if g.heavy && maxBits >= 20000 && g.R.P(1, 3) {
			bits = g.R.Range(20000, 130000) // far beyond the range: must still be +-Inf
		}
	}
	if bits <= 0 {
		return new(big.Int)
	}
	if g.R.P(1, 6) {
		return g.tieInt(bits)
	}
	words := (bits + 63) / 64
	i := new(big.Int)
	for w := 0; w < words; w++ {
		i.Lsh(i, 64)
		i.Or(i, new(big.Int).SetUint64(g.R.U64()))
	}
	i.Rsh(i, uint(words*64-bits))
	switch g.R.N(6) {
	case 0: // decimal structure: digits then zeros (exercises the sticky bit)
		d := ref.NumDigits(i)
		if d > 40 {
			p := ref.Pow10(d - g.R.Range(34, 40))
			i.Quo(i, p)
			i.Mul(i, p)
			if g.R.P(1, 2) {
				i.Add(i, big.NewInt(1))
			}
		}
	case 1: // a Decimal-representable integer
		c := g.coef()
		i.Mul(c, ref.Pow10(g.R.N(80)))
	}
	if g.R.P(2, 5) {
		i.Neg(i)
	}
	return i
}

// tieInt builds an integer that is an exact rounding tie at the 34- or
// 35-digit boundary, optionally disturbed by one single digit somewhere far
// below (the sticky information every reduction step has to carry along).
func (g *Gen) tieInt(bits int) *big.Int {
	maxDigits := bits * 30103 / 100000
	if maxDigits < 40 {
		maxDigits = 40
	}
	l := g.R.Range(33, 35)
	head := g.digits(l)
	if g.R.P(1, 2) { // even last digit: the tie goes down
		b := []byte(head)
		b[l-1] = "02468"[g.R.N(5)]
		head = string(b)
	}
	zeros := g.R.N(maxDigits - l)
	i, _ := new(big.Int).SetString(head+"5"+strings.Repeat("0", zeros), 10)
	switch g.R.N(4) {
	case 0: // exact tie
	case 1: // one unit below: ...4999
		i.Sub(i, big.NewInt(1))
	default: // tie + d*10^p
		if zeros > 0 {
			d := int64(g.R.Range(1, 9))
			p := g.R.N(zeros)
			if g.R.P(1, 2) {
				// digit positions at the edges of the chunks in which reduction
				// loops typically work (1e9, 1e18, 1e19, 1e27, 1e38), and the
				// digits that such chunk arithmetic treats specially
				c := []int{9, 18, 19, 27, 38}[g.R.N(5)]
				p = p/c*c + []int{0, c - 1}[g.R.N(2)]
				if p >= zeros {
					p = zeros - 1
				}
				d = []int64{1, 5, 5, 9}[g.R.N(4)]
			}
			i.Add(i, new(big.Int).Mul(big.NewInt(d), ref.Pow10(p)))
		}
	}
	if g.R.P(2, 5) {
		i.Neg(i)
	}
	return i
}

func (g *Gen) Rat() *big.Rat {
	var num, den *big.Int
	switch g.R.N(5) {
	case 0, 1: // both within 34 digits: must be correctly rounded
		num, _ = new(big.Int).SetString(g.digits(g.R.Range(1, 34)), 10)
		den, _ = new(big.Int).SetString(g.digits(g.R.Range(1, 34)), 10)
	case 2: // decimal fraction
		num = g.coef()
		den = ref.Pow10(g.R.N(80))
	case 3:
		num = g.BigInt(400)
		den = g.BigInt(400)
	default:
		num = g.BigInt(20000)
		den = g.BigInt(3000)
	}
	den.Abs(den)
	if den.Sign() == 0 {
		den.SetInt64(1)
	}
	r := new(big.Rat).SetFrac(num, den)
	if g.R.P(2, 5) {
		r.Neg(r)
	}
	return r
}

func (g *Gen) FloatSpec() FloatSpec {
	prec := uint([]int{24, 53, 64, 113, 128, 200, 1, 2000}[g.R.N(8)])
	f := new(big.Float).SetPrec(prec)
	switch g.R.N(6) {
	case 0:
		f.SetInf(g.R.P(1, 2))
	case 1:
		if g.R.P(1, 2) {
			f.Neg(f)
		}
	default:
		m := math.Float64frombits(g.R.U64()&^(0x7ff<<52) | 1023<<52)
		f.SetFloat64(m)
		f.SetMantExp(f, g.R.Range(-20600, 20400))
		if g.R.P(1, 2) {
			f.SetMantExp(f, 0).SetMantExp(f, g.R.Range(-200, 200)-f.MantExp(nil))
		}
		if g.R.P(1, 2) {
			f.Neg(f)
		}
	}
	return FloatSpec{Prec: prec, Mode: uint8(g.R.N(6)), Text: f.Text('p', 0)}
}

func (g *Gen) intArg() int64 {
	switch g.R.N(10) {
	case 0:
		return math.MinInt64
	case 1:
		return math.MaxInt64
	case 2:
		return int64(g.R.Range(-3, 3))
	case 3:
		return int64(math.MinInt32) + int64(g.R.Range(-2, 2))
	case 4:
		return int64(math.MaxInt32) + int64(g.R.Range(-2, 2))
	case 5:
		return int64(math.MaxUint32) + int64(g.R.Range(-2, 2))
	case 6:
		return int64(g.R.Range(-7000, 7000))
	}
	return int64(g.R.U64())
}

func (g *Gen) dpArg() int64 {
	switch g.R.N(8) {
	case 0:
		return math.MinInt64
	case 1:
		return math.MaxInt64
	case 2:
		return int64(g.R.Range(-7000, 7000))
	case 3:
		return int64(math.MinInt32)
	case 4:
		return int64(math.MaxInt32)
	}
	return int64(g.R.Range(-40, 40))
}

func sortedOpNames() []string {
	var names []string
	for n := range Ops {
		names = append(names, n)
	}
	sort.Strings(names)
	return names
}
