package sim

import (
	"encoding/json"
	"os"
	"sort"
	"strings"
)

// stateFile is what tools/instr writes next to the instrumented copy.
type stateFile struct {
	Globals []string `json:"globals"`
	Funcs   []struct {
		Name  string   `json:"name"`
		Refs  []string `json:"refs"`
		Calls []string `json:"calls"`
	} `json:"funcs"`
}

// opFuncs maps an operation kind to the simple names of the library functions
// it enters, where that is not the kind's own name.
var opFuncs = map[string][]string{
	"CeilDP": {"Ceil"}, "FloorDP": {"Floor"}, "RoundDP": {"Round"},
	"Const":         {"E", "Phi", "Pi", "NaN", "Inf"},
	"PayloadString": {"String"}, "RoundingModeString": {"String"},
	"CmpResult": {"Equal", "Greater", "GreaterOrEqual", "Less", "LessOrEqual"},
	"TextRT":    {"String", "MarshalText", "Format", "Append", "Parse", "UnmarshalText", "Scan"},
	"FormatFn":  {"Format"}, "AppendFn": {"Append"}, "AppendM": {"Append"}, "Sprintf": {"Format"},
	"FormatState": {"Format"}, "AppendVsSprintf": {"Append", "Format"},
	"Sscan": {"Scan"}, "ScanState": {"Scan"},
	"JSONRT": {"MarshalJSON", "UnmarshalJSON"}, "JSONRT2": {"MarshalJSON", "UnmarshalJSON"}, "JSONDoc": {"UnmarshalJSON"},
	"ComposeRow": {"Compose"},
	"ModeTwin":   {"Add", "AddWithMode", "Sub", "SubWithMode", "Mul", "MulWithMode", "Quo", "QuoWithMode", "Pow", "PowWithMode", "QuoRem", "QuoRemWithMode"},
	"Rat":        {"Rat", "FromRat"},
}

// FocusKinds reads the instrumenter's state file and returns the operation
// kinds of P20 that can reach package-level variables which the pinned tree
// does not have ("new shared state"), together with those variables. On the
// pinned tree both are empty.
func FocusKinds(path string) (kinds []string, newState []string) {
	b, err := os.ReadFile(path)
	if err != nil {
		return nil, nil
	}
	var st stateFile
	if json.Unmarshal(b, &st) != nil {
		return nil, nil
	}
	isNew := map[string]bool{}
	for _, g := range st.Globals {
		if !pinnedShared[g] && g != "DefaultRoundingMode" && !strings.HasPrefix(g, "Verif") {
			isNew[g] = true
			newState = append(newState, g)
		}
	}
	if len(newState) == 0 {
		return nil, nil
	}
	simple := func(n string) string {
		if i := strings.LastIndex(n, "."); i >= 0 {
			return n[i+1:]
		}
		return n
	}
	reach := map[string]bool{} // by simple name
	for _, f := range st.Funcs {
		for _, r := range f.Refs {
			if isNew[r] {
				reach[simple(f.Name)] = true
			}
		}
	}
	for changed := true; changed; {
		changed = false
		for _, f := range st.Funcs {
			if reach[simple(f.Name)] {
				continue
			}
			for _, c := range f.Calls {
				if reach[c] {
					reach[simple(f.Name)] = true
					changed = true
					break
				}
			}
		}
	}
	for _, k := range p20Kinds {
		names := opFuncs[k]
		if names == nil {
			names = []string{k}
		}
		for _, n := range names {
			if reach[n] {
				kinds = append(kinds, k)
				break
			}
		}
	}
	sort.Strings(kinds)
	sort.Strings(newState)
	return kinds, newState
}
