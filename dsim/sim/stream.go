package sim

import (
	"bufio"
	"io"
	"unicode/utf8"
)

// Stream is a simulated byte stream between one producer task and one
// consumer task. Both ends park the calling task in the scheduler instead of
// blocking; every fault is planned in the StreamSpec and fires at a byte
// offset, so the (bytes, error) sequence the consumer sees is a function of
// the Program alone while its fragmentation depends on the interleaving.
type Stream struct {
	sim  *Sim
	spec *StreamSpec

	buf        []byte // accepted, not yet delivered
	written    []byte // everything the producer handed over, in order
	delivered  int    // bytes delivered to the reader
	closed     bool
	readerDead bool // the consumer will never read again
	fragIdx    int
	wfragIdx   int
	faults     []faultState
	firstErr   int // offset of the first error event that fired (-1: none)
	eofAt      int // offset at which the reader saw end of stream (-1: not yet)

	// counters of faults that actually fired
	nFrag, nStall, nTransient, nSticky, nDataErr, nEOFEarly, nBackpressure, nShortWrite, nReaderPark int

	// consumer-side adaptors
	rd io.Reader
	// JSON documents / messages sent, for stream-level oracles
	msgs []message
}

type message struct {
	start, end int // byte offsets in written
	vals       []D
	text       string
}

type faultState struct {
	Fault
	left int  // stalls left
	done bool // one-shot faults
}

func newStream(s *Sim, spec *StreamSpec) *Stream {
	st := &Stream{sim: s, spec: spec, firstErr: -1, eofAt: -1}
	for _, f := range spec.Faults {
		st.faults = append(st.faults, faultState{Fault: f, left: f.Arg})
	}
	return st
}

type canRead struct{ s *Stream }

//go:norace
func (c canRead) ready() bool { return len(c.s.buf) > 0 || c.s.closed }

type canWrite struct{ s *Stream }

//go:norace
func (c canWrite) ready() bool {
	return c.s.readerDead || c.s.spec.Cap <= 0 || len(c.s.buf) < c.s.spec.Cap
}

// Write is the producer end. It accepts at most the free capacity (and at
// most the planned write fragment) and reports a short count otherwise.
func (s *Stream) Write(p []byte) (int, error) {
	if len(p) == 0 {
		return 0, nil
	}
	if s.closed {
		return 0, io.ErrClosedPipe
	}
	if !canWrite(canWrite{s}).ready() {
		s.nBackpressure++
		if !s.sim.Block(canWrite{s}) {
			return 0, io.ErrClosedPipe
		}
	}
	n := len(p)
	if s.readerDead {
		s.written = append(s.written, p...)
		return n, nil
	}
	if s.spec.Cap > 0 && n > s.spec.Cap-len(s.buf) {
		n = s.spec.Cap - len(s.buf)
	}
	if k := len(s.spec.WFrags); k > 0 {
		if f := s.spec.WFrags[s.wfragIdx%k]; f > 0 && n > f {
			n = f
		}
		s.wfragIdx++
	}
	s.buf = append(s.buf, p[:n]...)
	s.written = append(s.written, p[:n]...)
	if n < len(p) {
		s.nShortWrite++
		return n, io.ErrShortWrite
	}
	return n, nil
}

// WriteAll is what a well-behaved producer stub does with short writes: it
// retries the rest, so the byte stream stays intact.
func (s *Stream) WriteAll(p []byte) {
	for len(p) > 0 {
		n, err := s.Write(p)
		p = p[n:]
		if err != nil && err != io.ErrShortWrite {
			return
		}
	}
}

// Close ends the stream: the reader sees EOF after the buffered bytes.
func (s *Stream) Close() { s.closed = true }

// Abandon tells the stream that the consumer is gone: writes are accepted
// and dropped from now on.
func (s *Stream) Abandon() { s.readerDead = true; s.buf = nil }

func (s *Stream) errEvent() {
	if s.firstErr < 0 {
		s.firstErr = s.delivered
	}
}

// Read is the consumer end.
func (s *Stream) Read(p []byte) (int, error) {
	if len(p) == 0 {
		return 0, nil
	}
	// faults due at the current offset
	limit := -1 // next fault offset beyond the current one
	for i := range s.faults {
		f := &s.faults[i]
		if f.Off > s.delivered {
			if limit < 0 || f.Off < limit {
				limit = f.Off
			}
			continue
		}
		if f.Off < s.delivered && f.Kind != FaultSticky && f.Kind != FaultEOFEarly {
			continue
		}
		switch f.Kind {
		case FaultStall:
			if f.left > 0 && f.Off == s.delivered {
				f.left--
				s.nStall++
				return 0, nil
			}
		case FaultTransient:
			if !f.done && f.Off == s.delivered {
				f.done = true
				s.nTransient++
				s.errEvent()
				return 0, InjectedErr(f.Arg)
			}
		case FaultSticky:
			s.nSticky++
			s.errEvent()
			s.Abandon()
			return 0, InjectedErr(f.Arg)
		case FaultEOFEarly:
			if !f.done {
				f.done = true
				s.nEOFEarly++
			}
			if s.eofAt < 0 {
				s.eofAt = s.delivered
			}
			s.Abandon()
			return 0, io.EOF
		}
	}
	if len(s.buf) == 0 {
		if !s.closed {
			s.nReaderPark++
			if !s.sim.Block(canRead{s}) {
				return 0, io.ErrNoProgress
			}
		}
		if len(s.buf) == 0 {
			if s.eofAt < 0 {
				s.eofAt = s.delivered
			}
			return 0, io.EOF
		}
	}
	n := len(p)
	if n > len(s.buf) {
		n = len(s.buf)
	}
	if k := len(s.spec.Frags); k > 0 {
		if f := s.spec.Frags[s.fragIdx%k]; f > 0 && n > f {
			n = f
			s.nFrag++
		}
		s.fragIdx++
	}
	if limit >= 0 && s.delivered+n > limit {
		n = limit - s.delivered
	}
	copy(p, s.buf[:n])
	s.buf = s.buf[n:]
	s.delivered += n
	for i := range s.faults {
		f := &s.faults[i]
		if f.Kind == FaultDataErr && !f.done && f.Off == s.delivered {
			f.done = true
			s.nDataErr++
			s.errEvent()
			return n, InjectedErr(f.Arg)
		}
	}
	return n, nil
}

func (s *Stream) account(m map[string]int) {
	add := func(k string, n int) {
		if n > 0 {
			m[k] += n
		}
	}
	add("frag", s.nFrag)
	add(FaultStall, s.nStall)
	add(FaultTransient, s.nTransient)
	add(FaultSticky, s.nSticky)
	add(FaultDataErr, s.nDataErr)
	add(FaultEOFEarly, s.nEOFEarly)
	add("backpressure", s.nBackpressure)
	add("short-write", s.nShortWrite)
	add("reader-parked", s.nReaderPark)
}

// plainReader hides every method but Read, so package fmt wraps the stream
// in its own one-rune push-back reader.
type plainReader struct{ s *Stream }

func (r plainReader) Read(p []byte) (int, error) { return r.s.Read(p) }

// runeReader is an io.RuneScanner over the stream that reads one byte at a
// time (UTF-8 sequences may arrive split over several Reads).
type runeReader struct {
	s       *Stream
	pend    [utf8.UTFMax]byte
	npend   int
	last    rune
	lastSz  int
	unread  bool
	haveOne bool
}

func (r *runeReader) Read(p []byte) (int, error) {
	if r.unread && r.lastSz > 0 {
		// not used by fmt when ReadRune exists; keep semantics simple
		r.unread = false
		n := utf8.EncodeRune(r.pend[:], r.last)
		return copy(p, r.pend[:n]), nil
	}
	return r.s.Read(p)
}

func (r *runeReader) ReadRune() (rune, int, error) {
	if r.unread {
		r.unread = false
		return r.last, r.lastSz, nil
	}
	r.npend = 0
	for {
		var b [1]byte
		n, err := r.s.Read(b[:])
		if n == 1 {
			r.pend[r.npend] = b[0]
			r.npend++
			if utf8.FullRune(r.pend[:r.npend]) {
				c, sz := utf8.DecodeRune(r.pend[:r.npend])
				r.last, r.lastSz, r.haveOne = c, sz, true
				// an error delivered together with the byte is reported by the next call
				return c, sz, nil
			}
		}
		if err != nil {
			if r.npend > 0 && err == io.EOF {
				r.last, r.lastSz, r.haveOne = utf8.RuneError, 1, true
				return utf8.RuneError, 1, nil
			}
			return 0, 0, err
		}
	}
}

func (r *runeReader) UnreadRune() error {
	if !r.haveOne || r.unread {
		return bufio.ErrInvalidUnreadRune
	}
	r.unread = true
	return nil
}

// Reader returns the consumer-side view selected by the spec's Shape. The
// same view is returned on every call (lookahead lives in it).
func (s *Stream) Reader() io.Reader {
	if s.rd == nil {
		switch s.spec.Shape {
		case 1:
			s.rd = &runeReader{s: s}
		case 2:
			sz := s.spec.BufSz
			if sz < 16 {
				sz = 16
			}
			s.rd = bufio.NewReaderSize(plainReader{s}, sz)
		default:
			s.rd = plainReader{s}
		}
	}
	return s.rd
}
