package sim

import (
	"sync"
)

// Preempt asks the scheduler to take the processor away from a task when the
// operation it is executing reaches its Step-th statement, and to give it to
// the To-th other live task (counted round-robin from the pre-empted one).
type Preempt struct {
	Step uint64 `json:"step"`
	To   int    `json:"to"`
}

// BudgetExceeded is the panic value used to unwind an operation that ran for
// more statements than the step budget allows.
type BudgetExceeded struct{ Steps uint64 }

// Deadlocked is the panic value used to unwind an operation that waits for a
// lock no simulated caller can release any more.
type Deadlocked struct{ Why string }

const (
	stRunnable = iota
	stBlocked
	stDone
)

type waiter interface{ ready() bool }

// Task is one simulated caller goroutine.
type Task struct {
	ID    int
	b     baton
	state int
	wait  waiter
	body  func(*Task)

	// per-operation schedule state, owned by the hook
	opStep  uint64
	nextAt  uint64
	fairAt  uint64
	pre     []Preempt
	preIdx  int
	OpIndex int
	OpKind  string

	spinStreak int // consecutive waits without a single ordinary statement
	lockCount  uint64
	preLock    []Preempt
	parked     bool // suspended right after acquiring a lock; resumed only when somebody waits or nobody else can run
	held       []heldLock
}

// Event is one entry of the (optional) readable schedule trace.
type Event struct {
	Seq  uint64
	Kind byte // 'p' preempt, 'b' op boundary, 'w' blocked, 'd' done, 's' start
	From int
	To   int
	Site uint32
	Op   int
	Step uint64
}

// Overlap records that operation A was pre-empted at Site while the task that
// got the processor was inside (or about to start) operation B.
type Overlap struct {
	A, B string
	Site uint32
}

// Sim owns every scheduling decision of one epoch. Exactly one task runs at
// any instant; the others are parked on their batons.
type Sim struct {
	ClockBase int64 // logical time at the start of the pass (ns)
	clockOff  int64 // sum of the jumps so far
	tasks     []*Task
	cur       *Task
	ctl       *Task // pseudo task for code run by the controller itself
	cb        baton

	Steps        uint64
	Switches     uint64
	Preempts     uint64
	Spins        uint64
	LockCycles   []LockCycle
	stuck        int
	LockPreempts uint64
	FairYields   uint64
	Budget       uint64
	BigCalls     uint64 // math/big calls charged to the logical clock
	BigCost      uint64 // steps charged for them
	noYield      int
	Deadlock     bool
	aborted      bool

	EvHash   uint64
	TraceOn  bool
	Trace    []Event
	seq      uint64
	SiteHits []uint32
	Overlaps []Overlap

	// OnSwitch is called (by the task that is about to lose the processor)
	// at every context switch; it evaluates run-time invariants.
	OnSwitch func(from *Task)
}

var debugSched = false

const fnvOff = 14695981039346656037
const fnvPrime = 1099511628211

// NewSim creates a simulator with a step budget and a site table size.
func NewSim(budget uint64, sites int) *Sim {
	s := &Sim{Budget: budget, EvHash: fnvOff, SiteHits: make([]uint32, sites+1)}
	s.ctl = &Task{ID: -1}
	s.cur = s.ctl
	s.cb = newBaton()
	s.armTask(s.ctl)
	return s
}

// Clock is the only clock the library reads (VerifClock): a function of the
// statements executed so far in this pass and of the planned jumps.
//
//go:norace
func (s *Sim) Clock() int64 {
	v := s.ClockBase + s.clockOff + int64(s.Steps)*1000
	if v > procClock {
		procClock = v
	}
	return v
}

// procClock is the latest logical time the library has been told in this
// process: every pass continues from it, so that the clock never runs
// backwards (package time promises monotonic readings).
var procClock int64 = 1_700_000_000_000_000_000

// ClockNow is the logical time at which the next pass starts.
//
//go:norace
func ClockNow() int64 { return procClock + 1000 }

// AdvanceClock moves the logical clock forward.
//
//go:norace
func (s *Sim) AdvanceClock(ns int64) { s.clockOff += ns }

// Close releases the OS pipes.
func (s *Sim) Close() {
	s.cb.close()
	for _, t := range s.tasks {
		t.b.close()
	}
}

// AddTask registers a simulated caller. Must be called before Run.
func (s *Sim) AddTask(body func(*Task)) *Task {
	t := &Task{ID: len(s.tasks), b: newBaton(), body: body}
	s.armTask(t)
	s.tasks = append(s.tasks, t)
	return t
}

//go:norace
func (s *Sim) armTask(t *Task) {
	t.opStep = 0
	t.preIdx = 0
	t.fairAt = FairSlice
	t.nextAt = s.Budget + 1
	if t.fairAt < t.nextAt {
		t.nextAt = t.fairAt
	}
	if len(t.pre) > 0 && t.pre[0].Step < t.nextAt {
		t.nextAt = t.pre[0].Step
	}
}

// FairSlice is the number of statements one operation may execute before the
// scheduler gives the other callers a turn even without a planned
// pre-emption (weak fairness). Real goroutines run in parallel and are
// pre-empted by the runtime, so a caller that busy-waits for another one
// (a compare-and-swap loop with runtime.Gosched in its body, say) is correct
// code; without this rule it would spin until the step budget while the
// caller it waits for is parked. Longer than any operation of the pinned tree.
const FairSlice = 2_000_000

// BeginOp resets the per-operation step counter of the running task and
// installs the pre-emption plan of the operation.
//
//go:norace
func (s *Sim) BeginOp(idx int, kind string, pre []Preempt) {
	t := s.cur
	t.OpIndex = idx
	t.OpKind = kind
	t.pre = pre
	t.preLock = nil
	t.lockCount = 0
	t.held = t.held[:0]
	s.armTask(t)
}

// SetLockPlan installs the "pre-empt after the k-th lock acquisition" plan of
// the operation the running task is about to execute.
//
//go:norace
func (s *Sim) SetLockPlan(pl []Preempt) { s.cur.preLock = pl }

// EndOp returns the number of statements the operation executed.
//
//go:norace
func (s *Sim) EndOp() uint64 {
	t := s.cur
	n := t.opStep
	t.pre = nil
	s.armTask(t)
	t.opStep = 0
	return n
}

// Cur returns the running task (the controller pseudo task outside Run).
//
//go:norace
func (s *Sim) Cur() *Task { return s.cur }

// CostHook is installed as the library's VerifCostHook: the estimated work of
// a math/big call that is about to run is charged to the logical clock of the
// running operation (time spent inside math/big is otherwise invisible to the
// statement counter). An operation whose next big call alone would take it
// over the step budget is ended before the call.
//
//go:norace
func (s *Sim) CostHook(site uint32, cost uint64) {
	t := s.cur
	s.BigCalls++
	s.BigCost += cost
	t.opStep += cost
	if t.opStep > s.Budget {
		panic(BudgetExceeded{t.opStep})
	}
}

// Hook is installed as the library's VerifHook.
//
//go:norace
func (s *Sim) Hook(site uint32) {
	if site >= 0xFFFFFFF0 {
		if site == 0xFFFFFFF0 {
			s.noYield++
		} else if site == 0xFFFFFFF1 {
			s.noYield--
		}
		return
	}
	spin := site&0x80000000 != 0
	locked := site&0x60000000 != 0
	atomicOp := site&0x20000000 != 0 // about to perform an atomic operation: an event, but nothing is held
	site &^= 0xE0000000
	s.Steps++
	if int(site) < len(s.SiteHits) {
		s.SiteHits[site]++
	}
	t := s.cur
	t.opStep++
	if t.opStep >= t.nextAt {
		s.slow(t, site)
	}
	if !spin {
		t.spinStreak = 0
		s.stuck = 0 // somebody executed an ordinary statement: progress
		if locked && t != s.ctl && s.noYield == 0 {
			// the task has just acquired a lock: planned pre-emptions of the
			// form "after the k-th lock acquisition of this operation"
			t.lockCount++
			for _, lp := range t.preLock {
				if lp.Step == t.lockCount {
					if next := s.nthOther(t, lp.To); next != nil {
						s.Preempts++
						s.LockPreempts++
						s.Overlaps = append(s.Overlaps, Overlap{A: t.OpKind, B: next.OpKind, Site: site})
						// keep a lock holder off the processor for as long as
						// the others can run without it
						t.parked = !atomicOp
						s.switchTo(next, 'k', site)
						t.parked = false
					}
					break
				}
			}
		}
		return
	}
	// The task has just failed to take a lock (rewritten Lock) or goes round
	// an empty loop: it waits for another caller. Let the others run,
	// round-robin. s.stuck counts consecutive failed attempts of anybody with
	// no ordinary statement executed by anybody in between; when every live
	// task has had several turns like that, nobody can ever end the wait.
	t.spinStreak++
	s.stuck++
	live := 0
	for _, o := range s.tasks {
		if o.state != stDone {
			live++
		}
	}
	if t == s.ctl || live == 0 {
		live = 1
	}
	if s.stuck > 4*live+4 && (t == s.ctl || s.noYield > 0 || s.allSpinning()) {
		s.stuck = 0
		why := "every simulated caller waits for a lock another one holds (lock cycle)"
		if t == s.ctl || live == 1 {
			why = "a caller waits for a lock that nobody will release (taken twice, or never released by an earlier call)"
		}
		panic(Deadlocked{why})
	}
	if t == s.ctl || s.noYield > 0 {
		return
	}
	if next := s.nthOther(t, 0); next != nil {
		s.Spins++
		s.switchTo(next, 'l', site)
	}
}

// allSpinning reports whether every live task has only been waiting lately.
//
//go:norace
func (s *Sim) allSpinning() bool {
	for _, o := range s.tasks {
		if o.state == stDone {
			continue
		}
		if o.state == stBlocked {
			// a caller blocked on a stream that nobody can serve is waiting too
			if o.wait == nil || o.wait.ready() {
				return false
			}
			continue
		}
		if o.spinStreak < 1 {
			return false
		}
	}
	return true
}

//go:norace
func (s *Sim) slow(t *Task, site uint32) {
	if t.opStep > s.Budget {
		panic(BudgetExceeded{t.opStep})
	}
	// a pre-emption point
	var to int
	fire := false
	for t.preIdx < len(t.pre) && t.pre[t.preIdx].Step <= t.opStep {
		to = t.pre[t.preIdx].To
		t.preIdx++
		fire = true
	}
	fair := false
	if t.opStep >= t.fairAt {
		t.fairAt += FairSlice
		fair = true
	}
	t.nextAt = s.Budget + 1
	if t.fairAt < t.nextAt {
		t.nextAt = t.fairAt
	}
	if t.preIdx < len(t.pre) && t.pre[t.preIdx].Step < t.nextAt {
		t.nextAt = t.pre[t.preIdx].Step
	}
	if !fire && !fair || t == s.ctl || s.noYield > 0 {
		return
	}
	var next *Task
	if !fire {
		// a fairness turn goes to whoever is next, parked lock holders
		// included: this caller may be busy-waiting for one of them
		s.FairYields++
		keep := t.spinStreak
		t.spinStreak = 1
		next = s.nthOther(t, 0)
		t.spinStreak = keep
	} else {
		next = s.nthOther(t, to)
	}
	if next == nil {
		return
	}
	s.Preempts++
	s.Overlaps = append(s.Overlaps, Overlap{A: t.OpKind, B: next.OpKind, Site: site})
	s.switchTo(next, 'p', site)
}

// nthOther returns the k-th (mod count) live task other than t, counted
// round-robin from t.
//
//go:norace
func (s *Sim) nthOther(t *Task, k int) *Task {
	n, np := 0, 0
	for _, o := range s.tasks {
		if o != t && o.state != stDone {
			n++
			if o.parked {
				np++
			}
		}
	}
	if n == 0 {
		return nil
	}
	// parked lock holders are passed over while somebody else can run, except
	// by a task that is itself waiting (it may be waiting for that very lock)
	skipParked := np < n && t.spinStreak == 0
	if skipParked {
		n -= np
	}
	if k < 0 {
		k = -k
	}
	k %= n
	for i := 1; i <= len(s.tasks); i++ {
		o := s.tasks[(t.ID+i)%len(s.tasks)]
		if o != t && o.state != stDone && !(skipParked && o.parked) {
			if k == 0 {
				return o
			}
			k--
		}
	}
	return nil
}

// nextReady returns the first task after t (round-robin) that can make
// progress: runnable, or blocked on a condition that now holds.
//
//go:norace
func (s *Sim) nextReady(t *Task) *Task {
	// first somebody who can make progress on its own (neither a parked lock
	// holder nor a caller that is waiting for a lock), then a parked lock
	// holder (the waiting callers need it), then anybody. A blocked task used
	// to pass over parked holders in favour of waiting callers; with the
	// round-robin of the waiting callers that could keep a lock holder off the
	// processor for ever (a livelock of the harness, found on benign/c5).
	for pass := 0; pass < 3; pass++ {
		if r := s.nextReadyPass(t, pass); r != nil {
			return r
		}
	}
	return nil
}

//go:norace
func (s *Sim) nextReadyPass(t *Task, pass int) *Task {
	for i := 1; i <= len(s.tasks); i++ {
		o := s.tasks[(t.ID+i)%len(s.tasks)]
		if o == t || (pass == 0 && (o.parked || o.spinStreak > 0)) || (pass == 1 && !o.parked) {
			continue
		}
		switch o.state {
		case stRunnable:
			return o
		case stBlocked:
			if s.aborted || o.wait == nil || o.wait.ready() {
				return o
			}
		}
	}
	return nil
}

//go:norace
func (s *Sim) logEvent(kind byte, from, to int, site uint32, t *Task) {
	s.seq++
	h := s.EvHash
	for _, v := range [...]uint64{uint64(kind), uint64(from + 1), uint64(to + 1), uint64(site), uint64(t.OpIndex), t.opStep} {
		h ^= v
		h *= fnvPrime
	}
	s.EvHash = h
	if s.TraceOn && len(s.Trace) < 4096 {
		s.Trace = append(s.Trace, Event{Seq: s.seq, Kind: kind, From: from, To: to, Site: site, Op: t.OpIndex, Step: t.opStep})
	}
}

//go:norace
func (s *Sim) switchTo(next *Task, why byte, site uint32) {
	from := s.cur
	if next == from {
		return
	}
	s.Switches++
	s.logEvent(why, from.ID, next.ID, site, from)
	if s.OnSwitch != nil {
		s.OnSwitch(from)
	}
	s.cur = next
	next.b.signal()
	from.b.wait()
}

// YieldTo gives the processor to the k-th other live task at an operation
// boundary (no-op if there is none).
//
//go:norace
func (s *Sim) YieldTo(k int) {
	t := s.cur
	if t == s.ctl || s.noYield > 0 {
		return
	}
	if next := s.nthOther(t, k); next != nil {
		s.switchTo(next, 'b', 0)
	}
}

// Block parks the running task until w is ready. It returns false if the
// simulation was aborted because no task can make progress (deadlock).
//
//go:norace
func (s *Sim) Block(w waiter) bool {
	t := s.cur
	if t == s.ctl {
		return w.ready()
	}
	for !w.ready() {
		if s.aborted {
			return false
		}
		t.state = stBlocked
		t.wait = w
		next := s.nextReady(t)
		if next == nil {
			s.aborted = true
			s.Deadlock = true
			t.state = stRunnable
			t.wait = nil
			return false
		}
		s.switchTo(next, 'w', 0)
		t.state = stRunnable
		t.wait = nil
	}
	return true
}

//go:norace
func (s *Sim) finish(t *Task) {
	t.state = stDone
	s.logEvent('d', t.ID, -1, 0, t)
	if s.OnSwitch != nil {
		s.OnSwitch(t)
	}
	next := s.nextReady(t)
	if next == nil {
		// remaining tasks (if any) are blocked for ever: abort them
		for _, o := range s.tasks {
			if o.state == stBlocked {
				s.aborted = true
				s.Deadlock = true
				next = o
				break
			}
		}
	}
	if next == nil {
		s.cur = s.ctl
		s.cb.signal()
		return
	}
	s.cur = next
	next.b.signal()
}

// Run executes all registered tasks to completion, starting with task
// `first`. The start and the join use ordinary Go synchronisation on purpose:
// what the controller did before Run happens-before every task, and every
// task happens-before what the controller does after Run.
func (s *Sim) Run(first int) {
	if len(s.tasks) == 0 {
		return
	}
	var wg sync.WaitGroup
	for _, t := range s.tasks {
		wg.Add(1)
		go func(t *Task) {
			defer wg.Done()
			t.b.wait()
			t.body(t)
			s.finish(t)
		}(t)
	}
	s.start(first)
	s.cb.wait()
	wg.Wait()
	s.cur = s.ctl
}

//go:norace
func (s *Sim) start(first int) {
	if first < 0 {
		first = -first
	}
	t := s.tasks[first%len(s.tasks)]
	s.logEvent('s', -1, t.ID, 0, s.ctl)
	s.cur = t
	t.b.signal()
}
