package sim

import (
	"bytes"
	"fmt"
	"math/big"
	"runtime"
	"strings"
)

// poolObjs are the live objects built from a Pool description.
type poolObjs struct {
	spec   *Pool
	ints   []*big.Int
	rats   []*big.Rat
	floats []*big.Float
	bytes  [][]byte
}

func buildPool(p *Pool) *poolObjs {
	o := &poolObjs{spec: p}
	for _, s := range p.Ints {
		o.ints = append(o.ints, parseBigInt(s))
	}
	for _, s := range p.Rats {
		o.rats = append(o.rats, parseRat(s))
	}
	for _, f := range p.Floats {
		o.floats = append(o.floats, parseFloat(f))
	}
	for _, s := range p.Bytes {
		// read-only input bytes several callers pass to the library at the
		// same time; the spare capacity holds sentinels and is digested too
		raw := unhex(s)
		full := make([]byte, len(raw)+sharedSpare)
		copy(full, raw)
		for i := len(raw); i < len(full); i++ {
			full[i] = 0xA5
		}
		o.bytes = append(o.bytes, full[:len(raw)])
	}
	return o
}

const sharedSpare = 8

// sharedView returns the view of a shared byte object that holds exactly in
// (a suffix of the object), or nil.
func (o *poolObjs) sharedView(in []byte) []byte {
	if o == nil || len(in) == 0 {
		return nil
	}
	for _, pb := range o.bytes {
		if len(pb) >= len(in) && bytes.Equal(pb[len(pb)-len(in):], in) {
			return pb[len(pb)-len(in):]
		}
	}
	return nil
}

// render gives a canonical text of every shared object (for reports).
func (o *poolObjs) render() string {
	var b strings.Builder
	for _, i := range o.ints {
		b.WriteString(i.Text(16))
		b.WriteByte(';')
	}
	for _, r := range o.rats {
		b.WriteString(ratText(r))
		b.WriteByte(';')
	}
	for _, f := range o.floats {
		b.WriteString(floatText(f))
		b.WriteByte(';')
	}
	for _, y := range o.bytes {
		fmt.Fprintf(&b, "%x;", y)
	}
	return b.String()
}

func hashWords(h uint64, i *big.Int) uint64 {
	h ^= uint64(i.Sign() + 2)
	h *= fnvPrime
	for _, w := range i.Bits() {
		h ^= uint64(w)
		h *= fnvPrime
	}
	return h
}

// hash digests every shared object; the immutability oracle compares it
// with the digest taken right after construction (cheap enough to run at
// every context switch).
func (o *poolObjs) hash() uint64 {
	h := uint64(fnvOff)
	for _, i := range o.ints {
		h = hashWords(h, i)
	}
	for _, r := range o.rats {
		h = hashWords(h, r.Num())
		h = hashWords(h, r.Denom())
	}
	for _, f := range o.floats {
		var m big.Float
		e := f.MantExp(&m)
		h ^= uint64(int64(e))
		h *= fnvPrime
		h ^= uint64(f.Prec())<<8 ^ uint64(f.Mode()) ^ uint64(f.Acc()+2)<<40
		h *= fnvPrime
		if f.Signbit() {
			h ^= 1
			h *= fnvPrime
		}
		if !f.IsInf() {
			x, _ := m.SetMode(big.ToZero).SetPrec(f.Prec()).Float64()
			h ^= uint64(int64(x * (1 << 53)))
			h *= fnvPrime
			// full mantissa through the exact integer when it is small enough
			if f.Prec() <= 4096 {
				var mi big.Int
				mm := new(big.Float).SetPrec(f.Prec()).SetMantExp(&m, int(f.Prec()))
				mm.Int(&mi)
				h = hashWords(h, &mi)
			}
		}
	}
	for _, y := range o.bytes {
		for _, c := range y[:cap(y)] {
			h ^= uint64(c)
			h *= fnvPrime
		}
		h ^= uint64(len(y))
		h *= fnvPrime
	}
	return h
}

// privObjs are the long-lived objects one task owns.
type privObjs struct {
	bufs    [][]byte
	bufGen  []int  // bumped every time the task hands the buffer to the library again
	fromLib []bool // the buffer in this slot is a slice the library returned (recycled by the caller)
	ints    []*big.Int
	rats    []*big.Rat
	floats  []*big.Float
	recv    []D
}

func buildBuf(s BufSpec) []byte {
	data := unhex(s.Data)
	c := s.Cap
	if c < len(data) {
		c = len(data)
	}
	if c == 0 && len(data) == 0 {
		return nil
	}
	b := make([]byte, c)
	for i := range b {
		b[i] = s.Fill
	}
	copy(b, data)
	return b[:len(data)]
}

func buildPriv(p *PrivSpec) *privObjs {
	o := &privObjs{}
	for _, s := range p.Bufs {
		o.bufs = append(o.bufs, buildBuf(s))
		o.bufGen = append(o.bufGen, 0)
		o.fromLib = append(o.fromLib, false)
	}
	for _, s := range p.Ints {
		o.ints = append(o.ints, parseBigInt(s))
	}
	for _, s := range p.Rats {
		r := parseRat(s)
		o.rats = append(o.rats, r)
	}
	for _, f := range p.Floats {
		o.floats = append(o.floats, parseFloat(f))
	}
	for _, s := range p.Recv {
		o.recv = append(o.recv, ParseHex(s))
	}
	return o
}

// row is a decomposed value held "in flight" by the simulated driver.
type row struct {
	form  byte
	neg   bool
	coef  []byte
	exp   int32
	src   D
	seq   int // number of buffer hand-outs of the task when the row was made
	valid bool
}

// Ctx is what an operation sees: the epoch's mode, the shared pool, the
// task's private objects and streams, and the task's earlier results.
type Ctx struct {
	sim     *Sim
	ep      *epochRun
	mode    uint8
	pool    *poolObjs
	priv    *privObjs
	streams []*Stream
	results []*Result
	rows    []row
	arena   []byte    // reusable input buffer of a caller that recycles its memory
	handed  []memSpan // memory the task handed to the library as a buffer, or wrote to itself, in order
	task    int
	jends   map[*Stream]*jsonEnd
}

func (x *Ctx) int(slot int64) *big.Int {
	if slot < 0 || int(slot) >= len(x.priv.ints) {
		return nil
	}
	return x.priv.ints[slot]
}

func (x *Ctx) rat(slot int64) *big.Rat {
	if slot < 0 || int(slot) >= len(x.priv.rats) {
		return nil
	}
	return x.priv.rats[slot]
}

func (x *Ctx) float(slot int64) *big.Float {
	if slot < 0 || int(slot) >= len(x.priv.floats) {
		return nil
	}
	return x.priv.floats[slot]
}

// recv returns a pointer to a long-lived receiver (a fresh zero Decimal for
// slot -1).
func (x *Ctx) recv(slot int64) *D {
	if slot < 0 || int(slot) >= len(x.priv.recv) {
		return new(D)
	}
	return &x.priv.recv[slot]
}

func (x *Ctx) buf(slot int64) []byte {
	if slot < 0 || int(slot) >= len(x.priv.bufs) {
		return nil
	}
	x.priv.bufGen[slot]++
	b := x.priv.bufs[slot]
	x.noteWrite(b)
	if x.priv.fromLib[slot] {
		x.ep.noteClientWrite()
	}
	return b
}

type memSpan struct{ lo, hi uintptr }

// noteWrite records that the task gave b (with its spare capacity) to the
// library to write into, or wrote into it itself.
func (x *Ctx) noteWrite(b []byte) {
	if lo, hi := span(b); hi > lo {
		x.handed = append(x.handed, memSpan{lo, hi})
	}
}

// untouchedSince reports whether none of the memory handed out since seq
// overlaps b.
func (x *Ctx) untouchedSince(seq int, b []byte) bool {
	lo, hi := span(b)
	if hi == lo {
		return true
	}
	for _, m := range x.handed[seq:] {
		if m.lo < hi && lo < m.hi {
			return false
		}
	}
	return true
}

func (x *Ctx) setBuf(slot int64, b []byte) {
	if slot < 0 || int(slot) >= len(x.priv.bufs) {
		return
	}
	x.priv.bufs[slot] = b
}

// guard hands out a private copy of an input byte string with sentinel-filled
// spare capacity; the returned function reports whether the callee wrote to
// either.
func guard(in []byte) ([]byte, func() string) {
	const spare = 8
	full := make([]byte, len(in)+spare)
	copy(full, in)
	for i := len(in); i < len(full); i++ {
		full[i] = 0xA5
	}
	s := full[:len(in)]
	if in == nil {
		// keep nil-ness observable to the callee
		return nil, func() string { return "" }
	}
	return s, func() string {
		if !bytes.Equal(full[:len(in)], in) {
			return fmt.Sprintf("input bytes modified: %x -> %x", in, full[:len(in)])
		}
		for i := len(in); i < len(full); i++ {
			if full[i] != 0xA5 {
				return "spare capacity of an input slice written"
			}
		}
		return ""
	}
}

// input hands a byte-string input to the library the way a caller with a
// recycled buffer does: every second call of a task places the bytes in the
// same long-lived arena (so the memory of an earlier input is overwritten by
// a later one, which is fatal only if the library kept an alias), the others
// get fresh memory. Either way the spare capacity holds sentinels and the
// returned function reports writes by the callee.
func (x *Ctx) input(in []byte) ([]byte, func() string) {
	if s := x.pool.sharedView(in); s != nil {
		// the same memory is an input of calls by other tasks: nobody may
		// write it, not even for the duration of a call (the digest of the
		// shared objects is compared at every context switch)
		return s, func() string {
			if !bytes.Equal(s, in) {
				return fmt.Sprintf("input bytes shared with other callers modified: %x -> %x", in, s)
			}
			return ""
		}
	}
	if in == nil || len(x.results)%2 == 1 {
		return guard(in)
	}
	const spare = 8
	need := len(in) + spare
	if cap(x.arena) < need {
		x.arena = make([]byte, need, need*2)
	}
	full := x.arena[:need]
	copy(full, in)
	for i := len(in); i < need; i++ {
		full[i] = 0xA5
	}
	s := full[:len(in)]
	return s, func() string {
		if !bytes.Equal(full[:len(in)], in) {
			return fmt.Sprintf("input bytes modified: %x -> %x", in, full[:len(in)])
		}
		for i := len(in); i < need; i++ {
			if full[i] != 0xA5 {
				return "spare capacity of an input slice written"
			}
		}
		return ""
	}
}

// call runs f, converting a panic into a recorded result. Budget panics are
// flagged separately; panics that carry a harness marker are re-raised.
func (x *Ctx) call(r *Result, f func()) {
	defer func() {
		if p := recover(); p != nil {
			switch v := p.(type) {
			case BudgetExceeded:
				r.Budget = true
				r.HasPanic = true
				r.Panic = "step budget exceeded"
			case Deadlocked:
				r.Deadlock = true
				r.HasPanic = true
				r.Panic = "deadlock: " + v.Why
			case harnessPanic:
				panic(v)
			case runtime.Error:
				r.HasPanic = true
				r.Panic = "runtime error: " + v.Error()
			case error:
				r.HasPanic = true
				r.Panic = fmt.Sprintf("error(%s): %s", ErrClass(v), v.Error())
			default:
				r.HasPanic = true
				r.Panic = fmt.Sprint(v)
			}
		}
	}()
	f()
}

type harnessPanic struct{ msg string }

func harnessFail(format string, a ...any) {
	panic(harnessPanic{fmt.Sprintf(format, a...)})
}
