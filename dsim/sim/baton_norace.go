//go:build !race

package sim

// Without the race detector nothing needs to be hidden from it, so the baton
// is a one-slot channel: with GOMAXPROCS=1 a hand-over is a plain goroutine
// switch (a few hundred nanoseconds instead of a futex wake-up). The
// schedule is the same in both builds: who runs next is decided by the
// simulator, never by the Go scheduler.
type baton struct {
	c chan struct{}
}

func newBaton() baton { return baton{c: make(chan struct{}, 1)} }

func (b baton) close() {}

func (b baton) signal() { b.c <- struct{}{} }

func (b baton) wait() { <-b.c }
