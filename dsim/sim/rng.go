package sim

// Rng is a xoshiro256** generator seeded through SplitMix64. It is the only
// source of choices of the generators; executing a generated Program draws
// nothing.
type Rng struct {
	s     [4]uint64
	Draws uint64
}

func splitmix(x *uint64) uint64 {
	*x += 0x9e3779b97f4a7c15
	z := *x
	z = (z ^ z>>30) * 0xbf58476d1ce4e5b9
	z = (z ^ z>>27) * 0x94d049bb133111eb
	return z ^ z>>31
}

// NewRng derives a generator from a seed, a run index and a stream label.
func NewRng(seed, run uint64, label string) *Rng {
	x := seed
	a := splitmix(&x)
	x ^= run * 0xd1342543de82ef95
	b := splitmix(&x)
	for i := 0; i < len(label); i++ {
		x = x*1099511628211 ^ uint64(label[i])
	}
	c := splitmix(&x)
	d := splitmix(&x)
	r := &Rng{s: [4]uint64{a ^ c, b, c ^ 0x1234567, d | 1}}
	for i := 0; i < 8; i++ {
		r.U64()
	}
	return r
}

func rotl(x uint64, k uint) uint64 { return x<<k | x>>(64-k) }

// U64 returns the next 64 random bits.
func (r *Rng) U64() uint64 {
	r.Draws++
	s := &r.s
	res := rotl(s[1]*5, 7) * 9
	t := s[1] << 17
	s[2] ^= s[0]
	s[3] ^= s[1]
	s[1] ^= s[2]
	s[0] ^= s[3]
	s[2] ^= t
	s[3] = rotl(s[3], 45)
	return res
}

// N returns a uniform int in [0, n).
func (r *Rng) N(n int) int {
	if n <= 1 {
		return 0
	}
	return int(r.U64() % uint64(n))
}

// Range returns a uniform int in [lo, hi].
func (r *Rng) Range(lo, hi int) int {
	if hi <= lo {
		return lo
	}
	return lo + r.N(hi-lo+1)
}

// P returns true with probability num/den.
func (r *Rng) P(num, den int) bool { return r.N(den) < num }

// Pick returns a random element index weighted by w.
func (r *Rng) Pick(w []int) int {
	t := 0
	for _, x := range w {
		t += x
	}
	k := r.N(t)
	for i, x := range w {
		if k < x {
			return i
		}
		k -= x
	}
	return len(w) - 1
}
