package sim

import (
	"math"
	"unsafe"

	"github.com/woodsbury/decimal128"
)

// OpDef describes one kind of operation.
type OpDef struct {
	Name string
	// Exec performs the call(s) and records everything observable.
	Exec func(x *Ctx, op *Op, r *Result)
	// Check is the reference-model oracle (nil: none). It returns "" or a
	// description of the disagreement.
	Check func(x *Ctx, op *Op, r *Result) string
	// PanicOK reports whether a panic of this operation is documented for
	// these operands.
	PanicOK func(x *Ctx, op *Op, r *Result) bool
}

// Ops is the registry, filled by init functions and read-only afterwards.
var Ops = map[string]*OpDef{}

func reg(name string, exec func(x *Ctx, op *Op, r *Result)) *OpDef {
	if _, dup := Ops[name]; dup {
		panic("sim: duplicate op " + name)
	}
	d := &OpDef{Name: name, Exec: exec}
	Ops[name] = d
	return d
}

func (op *Op) dec(i int) D {
	if i >= len(op.D) {
		return D{}
	}
	return ParseHex(op.D[i])
}

func (op *Op) int(i int) int64 {
	if i >= len(op.I) {
		return 0
	}
	return op.I[i]
}

func (op *Op) str(i int) string {
	if i >= len(op.S) {
		return ""
	}
	return op.S[i]
}

func (op *Op) bytes(i int) []byte {
	if i >= len(op.B) {
		return nil
	}
	return unhex(op.B[i])
}

func span(b []byte) (lo, hi uintptr) {
	if cap(b) == 0 {
		return 0, 0
	}
	b = b[:cap(b)]
	lo = uintptr(unsafe.Pointer(&b[0]))
	return lo, lo + uintptr(len(b))
}

func isNaNBits(d D) bool  { hi, _ := Bits(d); return hi>>58&0x1f == 0x1f }
func isInfBits(d D) bool  { hi, _ := Bits(d); return hi>>58&0x1f == 0x1e }
func isSpecBits(d D) bool { hi, _ := Bits(d); return hi>>59&0xf == 0xf }

func rm(v int64) decimal128.RoundingMode { return decimal128.RoundingMode(uint8(v)) }

func init() {
	un := map[string]func(D) D{
		"Abs": decimal128.Abs, "Cbrt": decimal128.Cbrt, "Ceil": decimal128.Ceil,
		"Exp": decimal128.Exp, "Exp10": decimal128.Exp10, "Exp2": decimal128.Exp2,
		"Expm1": decimal128.Expm1, "Floor": decimal128.Floor, "Log": decimal128.Log,
		"Log10": decimal128.Log10, "Log1p": decimal128.Log1p, "Log2": decimal128.Log2,
		"Round": decimal128.Round, "Sqrt": decimal128.Sqrt, "Trunc": decimal128.Trunc,
		"Canonical": D.Canonical, "Neg": D.Neg,
	}
	for name, f := range un {
		f := f
		reg(name, func(x *Ctx, op *Op, r *Result) {
			d := op.dec(0)
			x.call(r, func() { r.dec(f(d)) })
		})
	}
	bin := map[string]func(D, D) D{
		"Add": D.Add, "Sub": D.Sub, "Mul": D.Mul, "Quo": D.Quo, "Pow": D.Pow,
		"Max": decimal128.Max, "Min": decimal128.Min,
	}
	for name, f := range bin {
		f := f
		reg(name, func(x *Ctx, op *Op, r *Result) {
			a, b := op.dec(0), op.dec(1)
			x.call(r, func() { r.dec(f(a, b)) })
		})
	}
	binm := map[string]func(D, D, decimal128.RoundingMode) D{
		"AddWithMode": D.AddWithMode, "SubWithMode": D.SubWithMode, "MulWithMode": D.MulWithMode,
		"QuoWithMode": D.QuoWithMode, "PowWithMode": D.PowWithMode,
	}
	for name, f := range binm {
		f := f
		reg(name, func(x *Ctx, op *Op, r *Result) {
			a, b, m := op.dec(0), op.dec(1), rm(op.int(0))
			x.call(r, func() { r.dec(f(a, b, m)) })
		})
	}
	reg("QuoRem", func(x *Ctx, op *Op, r *Result) {
		a, b := op.dec(0), op.dec(1)
		x.call(r, func() { q, m := a.QuoRem(b); r.dec(q, m) })
	})
	reg("QuoRemWithMode", func(x *Ctx, op *Op, r *Result) {
		a, b, m := op.dec(0), op.dec(1), rm(op.int(0))
		x.call(r, func() { q, rem := a.QuoRemWithMode(b, m); r.dec(q, rem) })
	})
	cmp := func(c decimal128.CmpResult, r *Result) {
		r.int(int64(c))
		r.bool(c.Equal())
		r.bool(c.Greater())
		r.bool(c.GreaterOrEqual())
		r.bool(c.Less())
		r.bool(c.LessOrEqual())
	}
	reg("Cmp", func(x *Ctx, op *Op, r *Result) {
		a, b := op.dec(0), op.dec(1)
		x.call(r, func() { cmp(a.Cmp(b), r) })
	})
	reg("CmpAbs", func(x *Ctx, op *Op, r *Result) {
		a, b := op.dec(0), op.dec(1)
		x.call(r, func() { cmp(a.CmpAbs(b), r) })
	})
	reg("CmpResult", func(x *Ctx, op *Op, r *Result) {
		c := decimal128.CmpResult(int8(op.int(0)))
		x.call(r, func() { cmp(c, r) })
	})
	reg("Equal", func(x *Ctx, op *Op, r *Result) {
		a, b := op.dec(0), op.dec(1)
		x.call(r, func() { r.bool(a.Equal(b)) })
	})
	reg("Compare", func(x *Ctx, op *Op, r *Result) {
		a, b := op.dec(0), op.dec(1)
		x.call(r, func() { r.int(int64(decimal128.Compare(a, b))) })
	})
	reg("CeilDP", func(x *Ctx, op *Op, r *Result) {
		a, dp := op.dec(0), int(op.int(0))
		x.call(r, func() { r.dec(a.Ceil(dp)) })
	})
	reg("FloorDP", func(x *Ctx, op *Op, r *Result) {
		a, dp := op.dec(0), int(op.int(0))
		x.call(r, func() { r.dec(a.Floor(dp)) })
	})
	reg("RoundDP", func(x *Ctx, op *Op, r *Result) {
		a, dp, m := op.dec(0), int(op.int(0)), rm(op.int(1))
		x.call(r, func() { r.dec(a.Round(dp, m)) })
	})
	reg("IsInf", func(x *Ctx, op *Op, r *Result) {
		a, s := op.dec(0), int(op.int(0))
		x.call(r, func() { r.bool(a.IsInf(s)) })
	})
	reg("IsNaN", func(x *Ctx, op *Op, r *Result) {
		a := op.dec(0)
		x.call(r, func() { r.bool(a.IsNaN()) })
	})
	reg("IsZero", func(x *Ctx, op *Op, r *Result) {
		a := op.dec(0)
		x.call(r, func() { r.bool(a.IsZero()) })
	})
	reg("Signbit", func(x *Ctx, op *Op, r *Result) {
		a := op.dec(0)
		x.call(r, func() { r.bool(a.Signbit()) })
	})
	reg("Sign", func(x *Ctx, op *Op, r *Result) {
		a := op.dec(0)
		x.call(r, func() { r.int(int64(a.Sign())) })
	}).PanicOK = func(x *Ctx, op *Op, r *Result) bool { return isNaNBits(op.dec(0)) }
	reg("Payload", func(x *Ctx, op *Op, r *Result) {
		a := op.dec(0)
		x.call(r, func() {
			p := a.Payload()
			r.uint(uint64(p))
			r.keepString("Payload.String", p.String())
		})
	}).PanicOK = func(x *Ctx, op *Op, r *Result) bool { return !isNaNBits(op.dec(0)) }
	reg("PayloadString", func(x *Ctx, op *Op, r *Result) {
		p := decimal128.Payload(uint64(op.int(0)))
		x.call(r, func() { r.keepString("Payload.String", p.String()) })
	})
	reg("RoundingModeString", func(x *Ctx, op *Op, r *Result) {
		m := rm(op.int(0))
		x.call(r, func() { r.keepString("RoundingMode.String", m.String()) })
	})
	reg("Const", func(x *Ctx, op *Op, r *Result) {
		k := op.int(0)
		x.call(r, func() {
			switch k % 7 {
			case 0:
				r.dec(decimal128.E())
			case 1:
				r.dec(decimal128.Phi())
			case 2:
				r.dec(decimal128.Pi())
			case 3:
				r.dec(decimal128.NaN())
			case 4:
				r.dec(decimal128.Inf(1))
			case 5:
				r.dec(decimal128.Inf(-1))
			case 6:
				r.dec(decimal128.Inf(int(op.int(1))))
			}
		})
	})
	reg("New", func(x *Ctx, op *Op, r *Result) {
		sig, exp := op.int(0), int(op.int(1))
		x.call(r, func() { r.dec(decimal128.New(sig, exp)) })
	})
	reg("Ldexp", func(x *Ctx, op *Op, r *Result) {
		a, e := op.dec(0), int(op.int(0))
		x.call(r, func() { r.dec(decimal128.Ldexp(a, e)) })
	})
	reg("Frexp", func(x *Ctx, op *Op, r *Result) {
		a := op.dec(0)
		x.call(r, func() { f, e := decimal128.Frexp(a); r.dec(f); r.int(int64(e)) })
	})
	reg("FromFloat64", func(x *Ctx, op *Op, r *Result) {
		f := math.Float64frombits(uint64(op.int(0)))
		x.call(r, func() { r.dec(decimal128.FromFloat64(f)) })
	})
	reg("FromFloat32", func(x *Ctx, op *Op, r *Result) {
		f := math.Float32frombits(uint32(op.int(0)))
		x.call(r, func() { r.dec(decimal128.FromFloat32(f)) })
	})
	reg("Float64", func(x *Ctx, op *Op, r *Result) {
		a := op.dec(0)
		x.call(r, func() { r.extra(f64text(a.Float64())) })
	})
	reg("Float32", func(x *Ctx, op *Op, r *Result) {
		a := op.dec(0)
		x.call(r, func() { r.extra(f64text(float64(a.Float32()))) })
	})
	reg("MarshalBinary", func(x *Ctx, op *Op, r *Result) {
		a := op.dec(0)
		x.call(r, func() { b, err := a.MarshalBinary(); r.keepBytes("MarshalBinary", b); r.err(err) })
	})
	reg("UnmarshalBinary", func(x *Ctx, op *Op, r *Result) {
		in, chk := x.input(op.bytes(0))
		d := x.recv(op.int(0))
		x.call(r, func() { err := d.UnmarshalBinary(in); r.err(err); r.dec(*d) })
		if v := chk(); v != "" {
			r.violation(v)
		}
	})
	// ModeTwin: D[0], D[1], I[0] = which operation. The default-mode form must
	// equal the WithMode form called with the current DefaultRoundingMode
	// (results are a function of the arguments and DefaultRoundingMode only).
	reg("ModeTwin", func(x *Ctx, op *Op, r *Result) {
		a, b := op.dec(0), op.dec(1)
		m := decimal128.RoundingMode(x.mode)
		x.call(r, func() {
			var p, q, p2, q2 D
			name := ""
			switch op.int(0) % 6 {
			case 0:
				name, p, q = "Add", a.Add(b), a.AddWithMode(b, m)
			case 1:
				name, p, q = "Sub", a.Sub(b), a.SubWithMode(b, m)
			case 2:
				name, p, q = "Mul", a.Mul(b), a.MulWithMode(b, m)
			case 3:
				name, p, q = "Quo", a.Quo(b), a.QuoWithMode(b, m)
			case 4:
				name, p, q = "Pow", a.Pow(b), a.PowWithMode(b, m)
			case 5:
				name = "QuoRem"
				p, p2 = a.QuoRem(b)
				q, q2 = a.QuoRemWithMode(b, m)
			}
			r.dec(p, q, p2, q2)
			if Hex(p) != Hex(q) || Hex(p2) != Hex(q2) {
				r.inconsistent(name + " under DefaultRoundingMode " + m.String() + " = " + Hex(p) + " but " + name + "WithMode(" + m.String() + ") = " + Hex(q))
			}
		})
	})

	// Scribble: the client overwrites a byte slice it received earlier. Legal,
	// and harmful only if the library handed out or kept an alias.
	reg("Scribble", func(x *Ctx, op *Op, r *Result) {
		k := int(op.int(0))
		if k < 0 || k >= len(x.results) || x.results[k] == nil {
			return
		}
		for _, kp := range x.results[k].keeps {
			if kp.bytes != nil {
				for i := range kp.bytes {
					kp.bytes[i] = 0xEE
				}
				// also the spare capacity the client now owns
				full := kp.bytes[:cap(kp.bytes)]
				for i := len(kp.bytes); i < len(full); i++ {
					full[i] = 0xEE
				}
				kp.scribbled = true
				// everything else the task holds in the same backing array
				// (earlier appends into the same buffer) is gone as well
				lo, hi := span(full)
				x.noteWrite(full)
				x.ep.noteClientWrite()
				for _, res := range x.results {
					if res == nil {
						continue
					}
					for _, other := range res.keeps {
						if other.bytes != nil {
							l2, h2 := span(other.bytes[:cap(other.bytes)])
							if l2 < hi && lo < h2 {
								other.scribbled = true
							}
						}
					}
				}
			}
		}
	})
}
