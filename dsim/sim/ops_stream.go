package sim

import (
	"encoding/json"
	"fmt"
	"io"
	"strings"

	"dsim/ref"

	"github.com/woodsbury/decimal128"
)

func (op *Op) streamOp() bool {
	switch op.Kind {
	case "SWrite", "SClose", "SProduce", "Fscan", "Drain", "JEncode", "JDecode":
		return true
	}
	return false
}

// historyOp: the result legitimately depends on what the task did before
// (caller-owned objects carried across calls), so the "same call, same
// result in a later epoch" oracle does not apply.
func (op *Op) historyOp() bool {
	switch op.Kind {
	case "AppendFn", "AppendM", "Sprintf", "Decompose", "ComposeRow", "Scribble",
		"UnmarshalJSON", "UnmarshalText", "UnmarshalBinary", "Compose", "Sscan", "ScanState",
		"Int", "Rat", "Float", "JSONRT", "JSONRT2", "JSONDoc":
		return true
	}
	return false
}

func (x *Ctx) stream(i int64) *Stream {
	if len(x.streams) == 0 {
		harnessFail("stream op without streams")
	}
	return x.streams[int(i)%len(x.streams)]
}

// streamProducers render one Decimal into a stream.
var streamProducers = []struct {
	name   string
	family byte
	f      func(w io.Writer, d D) string
}{
	{"Fprint", 'g', func(w io.Writer, d D) string { fmt.Fprint(w, d); return "" }},
	{"Fprintf(%v)", 'g', func(w io.Writer, d D) string { fmt.Fprintf(w, "%v", d); return "" }},
	{"String", 'g', func(w io.Writer, d D) string { return d.String() }},
	{"MarshalText", 'g', func(w io.Writer, d D) string { b, _ := d.MarshalText(); return string(b) }},
	{"Format(e,-1)", 'e', func(w io.Writer, d D) string { return decimal128.Format(d, 'e', -1) }},
	{"Format(g,-1)", 'g', func(w io.Writer, d D) string { return decimal128.Format(d, 'g', -1) }},
	{"Append(E,-1)", 'E', func(w io.Writer, d D) string { return string(decimal128.Append(nil, d, 'E', -1)) }},
	{"Fprintf(%g)", 'g', func(w io.Writer, d D) string { fmt.Fprintf(w, "%g", d); return "" }},
	{"Decimal.Append(v)", 'g', func(w io.Writer, d D) string { return string(d.Append(nil, "v")) }},
}

// recWriter remembers what went through it (the producer's own view).
type recWriter struct {
	s   *Stream
	rec []byte
}

func (w *recWriter) Write(p []byte) (int, error) {
	w.rec = append(w.rec, p...)
	w.s.WriteAll(p)
	return len(p), nil
}

type jsonEnd struct {
	enc *json.Encoder
	dec *json.Decoder
	dst jsonDoc
}

func init() {
	// SWrite: I[0] = stream, B[0] = bytes.
	reg("SWrite", func(x *Ctx, op *Op, r *Result) {
		x.stream(op.int(0)).WriteAll(op.bytes(0))
	})
	reg("SClose", func(x *Ctx, op *Op, r *Result) {
		x.stream(op.int(0)).Close()
	})

	// SProduce: I[0] = stream, I[1] = producer, D[0] = value, B[0] = separator
	// written after the numeral.
	reg("SProduce", func(x *Ctx, op *Op, r *Result) {
		s := x.stream(op.int(0))
		p := streamProducers[int(op.int(1))%len(streamProducers)]
		a := op.dec(0)
		w := &recWriter{s: s}
		start := len(s.written)
		x.call(r, func() {
			if txt := p.f(w, a); txt != "" {
				w.Write([]byte(txt))
			}
			r.str(string(w.rec))
		})
		s.msgs = append(s.msgs, message{start: start, end: start + len(w.rec), vals: []D{a}, text: string(w.rec)})
		s.WriteAll(op.bytes(0))
	}).Check = func(x *Ctx, op *Op, r *Result) string {
		if s := noPanic(r); s != "" {
			return s
		}
		p := streamProducers[int(op.int(1))%len(streamProducers)]
		if s := checkShortest(op.dec(0), r.S[0], p.family); s != "" {
			return p.name + ": " + s
		}
		return ""
	}

	// Fscan: I[0] = stream, I[1] = variant (0 Fscan, 1 Fscanf(S[0])),
	// I[2] = receiver slot. Judged by the stream-level oracle.
	reg("Fscan", func(x *Ctx, op *Op, r *Result) {
		s := x.stream(op.int(0))
		d := x.recv(op.int(2))
		rd := s.Reader()
		x.call(r, func() {
			var n int
			var err error
			if op.int(1) == 1 {
				n, err = fmt.Fscanf(rd, op.str(0), d)
			} else {
				n, err = fmt.Fscan(rd, d)
			}
			r.int(int64(n))
			r.err(err)
			r.dec(*d)
		})
	})

	// Drain: I[0] = stream. The consumer reads whatever is left and goes away.
	reg("Drain", func(x *Ctx, op *Op, r *Result) {
		s := x.stream(op.int(0))
		rd := s.Reader()
		var buf [64]byte
		errs := 0
		for i := 0; i < 1<<16; i++ {
			_, err := rd.Read(buf[:])
			if err == io.EOF || err == io.ErrNoProgress {
				break
			}
			if err != nil {
				errs++
				if errs > 16 {
					break
				}
			}
		}
		s.Abandon()
	})

	// JEncode: I[0] = stream, D[0..3] = A, *B, C[0], M["k"]; I[1] = 1: B nil.
	reg("JEncode", func(x *Ctx, op *Op, r *Result) {
		s := x.stream(op.int(0))
		je := x.jsonEnd(s)
		a, b, c, m := op.dec(0), op.dec(1), op.dec(2), op.dec(3)
		doc := jsonDoc{A: a, C: []D{c}, M: map[string]D{"k": m}}
		vals := []D{a, c, m}
		if op.int(1) == 0 {
			doc.B = &b
			vals = append(vals, b)
		}
		start := len(s.written)
		x.call(r, func() {
			if je.enc == nil {
				je.enc = json.NewEncoder(&recWriter{s: s})
			}
			err := je.enc.Encode(&doc)
			r.err(err)
		})
		if r.Err == nil && !r.HasPanic {
			s.msgs = append(s.msgs, message{start: start, end: len(s.written), vals: vals, text: string(s.written[start:])})
			r.str(string(s.written[start:]))
		}
	}).Check = func(x *Ctx, op *Op, r *Result) string {
		if s := noPanic(r); s != "" {
			return s
		}
		special := false
		for i := 0; i < 4; i++ {
			if i == 1 && op.int(1) != 0 {
				continue
			}
			if isSpecBits(op.dec(i)) {
				special = true
			}
		}
		if special != (r.Err != nil) {
			return fmt.Sprintf("Encoder.Encode: special value present = %v, error = %v", special, r.Err)
		}
		return ""
	}

	// JDecode: I[0] = stream. Decodes the next document into the task's
	// long-lived destination. Judged by the stream-level oracle.
	reg("JDecode", func(x *Ctx, op *Op, r *Result) {
		s := x.stream(op.int(0))
		je := x.jsonEnd(s)
		x.call(r, func() {
			if je.dec == nil {
				je.dec = json.NewDecoder(s.Reader())
			}
			err := je.dec.Decode(&je.dst)
			r.err(err)
			r.dec(je.dst.A)
			if len(je.dst.C) > 0 {
				r.dec(je.dst.C[0])
			} else {
				r.dec(D{})
			}
			r.dec(je.dst.M["k"])
			if je.dst.B != nil {
				r.dec(*je.dst.B)
			}
			r.bool(je.dst.B != nil)
		})
	})
}

func (x *Ctx) jsonEnd(s *Stream) *jsonEnd {
	if x.jends == nil {
		x.jends = map[*Stream]*jsonEnd{}
	}
	je := x.jends[s]
	if je == nil {
		je = &jsonEnd{}
		x.jends[s] = je
	}
	return je
}

// token is a white-space delimited piece of the bytes a producer wrote.
type token struct {
	text       string
	start, end int
}

func splitTokens(b []byte) []token {
	var out []token
	i := 0
	for i < len(b) {
		for i < len(b) && isSpace(b[i]) {
			i++
		}
		if i >= len(b) {
			break
		}
		st := i
		for i < len(b) && !isSpace(b[i]) {
			i++
		}
		out = append(out, token{text: string(b[st:i]), start: st, end: i})
	}
	return out
}

func isSpace(c byte) bool { return c == ' ' || c == '\n' || c == '\t' || c == '\r' }

// firstErrEvent returns the smallest offset of a planned error fault (not
// stalls, not early EOF), or -1.
func firstErrEvent(spec *StreamSpec) int {
	e := -1
	for _, f := range spec.Faults {
		switch f.Kind {
		case FaultTransient, FaultSticky, FaultDataErr:
			if e < 0 || f.Off < e {
				e = f.Off
			}
		}
	}
	return e
}

func eofEarlyAt(spec *StreamSpec) int {
	e := -1
	for _, f := range spec.Faults {
		if f.Kind == FaultEOFEarly && (e < 0 || f.Off < e) {
			e = f.Off
		}
	}
	return e
}

// checkScanStream is the stream-level oracle for Fscan consumers (C05, C06):
// until its first error return, the j-th call must return the value of the
// j-th token of the byte stream (cut where the stream really ended), or an
// error that the token or a fault explains.
func checkScanStream(e *epochRun, si int, s *Stream, add func(class, op, detail string, task, idx int)) {
	w := s.written
	if cut := eofEarlyAt(s.spec); cut >= 0 && cut < len(w) {
		w = w[:cut]
	}
	toks := splitTokens(w)
	errAt := firstErrEvent(s.spec)
	j := 0
	for ti := range e.ep.Tasks {
		for oi := range e.ep.Tasks[ti].Ops {
			op := &e.ep.Tasks[ti].Ops[oi]
			if op.Kind != "Fscan" || int(op.int(0))%len(e.streams) != si {
				continue
			}
			if oi >= len(e.results[ti]) {
				return
			}
			r := e.results[ti][oi]
			if r.HasPanic {
				return // reported by the generic panic oracle
			}
			if op.int(1) == 1 && !scanVerbOK(op.str(0)) {
				if r.Err == nil {
					add(VWrong, "Fscan", fmt.Sprintf("Fscanf with format %q succeeded", op.str(0)), ti, oi)
				}
				return
			}
			if j >= len(toks) {
				if r.Err == nil {
					add(VWrong, "Fscan", fmt.Sprintf("call %d returned %s without error, but the stream holds only %d tokens", j+1, NumOf(r.D[0]), len(toks)), ti, oi)
				}
				return
			}
			tk := toks[j]
			if !scanAlphabet(tk.text) {
				// Scan consumes only part of such a token: this call is judged
				// against that part, the following ones are not
				if !(errAt >= 0 && errAt <= tk.end) && r.Err == nil {
					if s2 := judgeScan(tk.text, e.ep.Mode, nil, r.D[0], false); s2 != "" {
						add(VWrong, "Fscan", fmt.Sprintf("token %d of the stream: %s", j+1, s2), ti, oi)
					}
				}
				return
			}
			lit := ref.ParseLiteral(tk.text, ref.LitOpts{NoLongInf: true})
			faultNear := errAt >= 0 && errAt <= tk.end
			if r.Err != nil {
				if faultNear {
					return
				}
				if s := judgeParse(tk.text, lit, e.ep.Mode, r.Err, false, D{}, false); s != "" {
					add(VWrong, "Fscan", fmt.Sprintf("token %d of the stream: %s", j+1, s), ti, oi)
				}
				return // the position after an error return is unspecified
			}
			if s := judgeParse(tk.text, lit, e.ep.Mode, nil, true, r.D[0], false); s != "" {
				why := ""
				if faultNear {
					why = fmt.Sprintf(" (read error injected at offset %d, token spans %d..%d)", errAt, tk.start, tk.end)
				}
				add(VWrong, "Fscan", fmt.Sprintf("token %d of the stream: %s%s", j+1, s, why), ti, oi)
				return
			}
			j++
		}
	}
}

// checkJSONStream is the stream-level oracle for Decoder consumers (C13).
func checkJSONStream(e *epochRun, si int, s *Stream, add func(class, op, detail string, task, idx int)) {
	errAt := firstErrEvent(s.spec)
	cut := eofEarlyAt(s.spec)
	j := 0
	for ti := range e.ep.Tasks {
		for oi := range e.ep.Tasks[ti].Ops {
			op := &e.ep.Tasks[ti].Ops[oi]
			if op.Kind != "JDecode" || int(op.int(0))%len(e.streams) != si {
				continue
			}
			if oi >= len(e.results[ti]) {
				return
			}
			r := e.results[ti][oi]
			if r.HasPanic {
				return
			}
			if j >= len(s.msgs) {
				if r.Err == nil {
					add(VWrong, "JDecode", fmt.Sprintf("Decode %d succeeded but only %d documents were sent", j+1, len(s.msgs)), ti, oi)
				}
				return
			}
			m := s.msgs[j]
			truncated := cut >= 0 && cut < m.end-1 // the trailing newline is not part of the document
			faultNear := errAt >= 0 && errAt <= m.end
			if r.Err != nil {
				if !faultNear && !(cut >= 0 && cut < m.end) {
					add(VWrong, "JDecode", fmt.Sprintf("document %d (%s) was delivered intact but Decode failed: %v", j+1, strings.TrimSpace(m.text), r.Err), ti, oi)
				}
				return
			}
			if truncated {
				add(VWrong, "JDecode", fmt.Sprintf("document %d was cut at byte %d of %d but Decode returned no error", j+1, cut-m.start, m.end-m.start), ti, oi)
				return
			}
			// A, C[0], M["k"], [B]
			for k := 0; k < 3; k++ {
				if s2 := checkRoundTrip(m.vals[k], r.D[k], fmt.Sprintf("Encoder -> stream -> Decoder (document %d, field %d)", j+1, k)); s2 != "" {
					add(VWrong, "JDecode", s2+" document "+strings.TrimSpace(m.text), ti, oi)
					return
				}
			}
			if len(m.vals) == 4 {
				if !r.B[0] || len(r.D) < 4 {
					add(VWrong, "JDecode", "field B decoded as nil", ti, oi)
					return
				}
				if s2 := checkRoundTrip(m.vals[3], r.D[3], fmt.Sprintf("Encoder -> stream -> Decoder (document %d, field B)", j+1)); s2 != "" {
					add(VWrong, "JDecode", s2, ti, oi)
					return
				}
			} else if r.B[0] {
				add(VWrong, "JDecode", "null left a stale *Decimal in field B", ti, oi)
				return
			}
			j++
		}
	}
}
