package sim

import (
	"encoding/json"
	"errors"
	"fmt"
	"io"
	"math"
	"math/big"
	"strconv"
	"strings"
)

// ErrInjected is the error a simulated peer injects.
var ErrInjected = errors.New("sim: injected I/O error")

// injectable lists the errors a simulated reader may fail with: real readers
// fail with their own errors, with wrapped errors, and with the io package's
// sentinel errors (a truncated gzip stream reports io.ErrUnexpectedEOF).
var injectable = []error{
	ErrInjected,
	io.ErrUnexpectedEOF,
	fmt.Errorf("read tcp 10.0.0.1:4242: %w", ErrInjected),
	io.ErrClosedPipe,
	io.ErrNoProgress,
	errors.New("sim: i/o timeout"),
}

// InjectedErr returns the error with the given index (mod the list).
func InjectedErr(k int) error {
	if k < 0 {
		k = -k
	}
	return injectable[k%len(injectable)]
}

// keep is a retained reference to something the library returned, together
// with a private copy taken on receipt (result-stability oracle).
type keep struct {
	what      string
	bytes     []byte
	str       string
	big       fmt.Stringer
	copyOf    string
	scribbled bool
	// a result that lives in memory the caller recycles stays meaningful only
	// until the caller hands that memory to the library again or writes to it
	ctx *Ctx
	seq int
}

func (k *keep) stale() bool {
	return k.scribbled || k.ctx != nil && k.bytes != nil && !k.ctx.untouchedSince(k.seq, k.bytes[:cap(k.bytes)])
}

func (k *keep) current() string {
	switch {
	case k.bytes != nil:
		return string(k.bytes)
	case k.big != nil:
		return k.big.String()
	}
	return k.str
}

// Result records everything observable about one operation.
type Result struct {
	HasPanic bool
	Panic    string
	Budget   bool // unwound because the step budget was exceeded
	Deadlock bool // unwound because no simulated caller could make progress
	D        []D
	S        []string
	I        []int64
	U        []uint64
	B        []bool
	Err      error
	ErrText  string // Err.Error() at the moment the call returned
	HasErr   bool   // an error slot exists (even if nil)
	X        []string
	Viol     []string // violations noticed by the operation itself (input modified, ...)
	Incons   []string // results of one operation that contradict each other
	Steps    uint64
	keeps    []*keep
}

func (r *Result) dec(d ...D)    { r.D = append(r.D, d...) }
func (r *Result) str(s string)  { r.S = append(r.S, s) }
func (r *Result) int(i int64)   { r.I = append(r.I, i) }
func (r *Result) uint(u uint64) { r.U = append(r.U, u) }
func (r *Result) bool(b bool)   { r.B = append(r.B, b) }
func (r *Result) err(e error) {
	r.Err = e
	r.HasErr = true
	if e != nil {
		// an error value is a result like any other: what it says when it is
		// returned must still be what it says later
		r.ErrText = e.Error()
	}
}
func (r *Result) extra(s string)        { r.X = append(r.X, s) }
func (r *Result) violation(s string)    { r.Viol = append(r.Viol, s) }
func (r *Result) inconsistent(s string) { r.Incons = append(r.Incons, s) }

// keepBytes records a returned byte slice: value now, and the live slice for
// the stability oracle.
func (r *Result) keepBytes(what string, b []byte) {
	r.S = append(r.S, string(b))
	if b != nil {
		r.keeps = append(r.keeps, &keep{what: what, bytes: b, copyOf: string(b)})
	}
}

// keepBytesIn is keepBytes for a result that may live in memory the task
// recycles (an append target, a slice it will reuse as a buffer).
func (r *Result) keepBytesIn(what string, b []byte, x *Ctx, slot int64) {
	r.keepBytes(what, b)
	if b != nil {
		k := r.keeps[len(r.keeps)-1]
		k.ctx, k.seq = x, len(x.handed)
	}
}

// keepString records a returned string (which may alias a byte buffer).
func (r *Result) keepString(what string, s string) {
	c := strings.Clone(s)
	r.S = append(r.S, c)
	r.keeps = append(r.keeps, &keep{what: what, str: s, copyOf: c})
}

func (r *Result) keepBig(what string, b fmt.Stringer) {
	r.keeps = append(r.keeps, &keep{what: what, big: b, copyOf: b.String()})
}

// ErrClass classifies an error the way callers can observe it.
func ErrClass(e error) string {
	if e == nil {
		return "nil"
	}
	var ute *json.UnmarshalTypeError
	var uve *json.UnsupportedValueError
	var mte *json.MarshalerError
	var se *json.SyntaxError
	switch {
	case errors.Is(e, strconv.ErrSyntax):
		return "syntax"
	case errors.Is(e, strconv.ErrRange):
		return "range"
	case errors.Is(e, ErrInjected):
		return "injected"
	case errors.Is(e, io.ErrUnexpectedEOF):
		return "unexpected-eof"
	case errors.Is(e, io.EOF):
		return "eof"
	case errors.As(e, &uve):
		return "json-unsupported-value"
	case errors.As(e, &mte):
		return "json-marshaler"
	case errors.As(e, &ute):
		return "json-unmarshal-type"
	case errors.As(e, &se):
		return "json-syntax"
	}
	return "other"
}

// Key is a canonical rendering of the result used for equality.
func (r *Result) Key() string {
	var b strings.Builder
	if r.HasPanic {
		fmt.Fprintf(&b, "panic(%s);", r.Panic)
	}
	for _, d := range r.D {
		b.WriteString("d:")
		b.WriteString(Hex(d))
		b.WriteByte(';')
	}
	for _, s := range r.S {
		fmt.Fprintf(&b, "s:%q;", s)
	}
	for _, i := range r.I {
		fmt.Fprintf(&b, "i:%d;", i)
	}
	for _, u := range r.U {
		fmt.Fprintf(&b, "u:%d;", u)
	}
	for _, v := range r.B {
		fmt.Fprintf(&b, "b:%v;", v)
	}
	if r.HasErr {
		if r.Err == nil {
			b.WriteString("err:nil;")
		} else {
			fmt.Fprintf(&b, "err:%s:%q;", ErrClass(r.Err), r.ErrText)
		}
	}
	for _, x := range r.X {
		fmt.Fprintf(&b, "x:%s;", x)
	}
	for _, v := range r.Viol {
		fmt.Fprintf(&b, "viol:%s;", v)
	}
	return b.String()
}

func f64text(f float64) string {
	return fmt.Sprintf("%016x", math.Float64bits(f))
}

func ratText(r *big.Rat) string {
	// RatString normalises; a denormalised Rat (stale state) must show up
	return r.Num().String() + "/" + r.Denom().String()
}
