package sim

import (
	"fmt"
	"reflect"

	"github.com/woodsbury/decimal128"
)

// SiteName renders a site number as file:line of the library source.
func SiteName(site uint32) string {
	site &^= 0xE0000000
	if int(site) < len(decimal128.VerifSites) {
		return decimal128.VerifSites[site]
	}
	return fmt.Sprintf("site%d", site)
}

// Lock-order analysis over the recorded history of lock events (the
// "Goodlock" idea): whenever a simulated caller acquires lock B while holding
// lock A, the edge A -> B is remembered for the life-time of the process,
// together with the other locks held at that moment (its guard set). A cycle
// of edges with pairwise disjoint guard sets means that callers exist which
// take the same locks in opposite orders with nothing serialising them: some
// interleaving of those callers deadlocks, whether or not this run produced
// it. Only exclusive Lock/Unlock pairs are analysed.

type heldLock struct {
	addr uintptr
	site uint32
}

type lockEdge struct {
	from, to   uintptr
	guards     []uintptr
	op         string
	fromSite   uint32
	toSite     uint32
	reportedTo []uintptr
	// ephemeral: one of the locks does not live in a package-level variable;
	// its address may be reused, so the edge is forgotten when the run ends
	ephemeral bool
}

func staticAddr(a uintptr) bool {
	for _, r := range staticRanges {
		if a >= r.lo && a < r.hi {
			return true
		}
	}
	return false
}

func dropEphemeralLockEdges() {
	k := 0
	for _, e := range lockGraph {
		if !e.ephemeral {
			lockGraph[k] = e
			k++
		}
	}
	lockGraph = lockGraph[:k]
}

// lockGraph lives for the whole process: package-level mutexes keep their
// address, and the two halves of an inversion are often seen in different runs.
var lockGraph []*lockEdge

// LockHook is installed as the library's VerifLockHook.
//
//go:norace
func (s *Sim) LockHook(kind int, lock any, site uint32) {
	t := s.cur
	addr := lockAddr(lock)
	if addr == 0 {
		return
	}
	switch kind {
	case 1:
		for i, h := range t.held {
			if h.addr == addr {
				continue
			}
			s.addLockEdge(t, h, addr, site, i)
		}
		t.held = append(t.held, heldLock{addr, site})
	case 0:
		for i := len(t.held) - 1; i >= 0; i-- {
			if t.held[i].addr == addr {
				t.held = append(t.held[:i], t.held[i+1:]...)
				break
			}
		}
	}
}

// lockAddr identifies a lock by the address of the mutex itself: the
// instrumenter passes &x for a statement x.Lock(), which is a pointer to a
// pointer when x is a *sync.Mutex variable (whose own address, often a stack
// slot, says nothing about the mutex).
func lockAddr(lock any) uintptr {
	v := reflect.ValueOf(lock)
	if v.Kind() != reflect.Pointer || v.IsNil() {
		return 0
	}
	for v.Elem().Kind() == reflect.Pointer {
		v = v.Elem()
		if v.IsNil() {
			return 0
		}
	}
	return v.Pointer()
}

//go:norace
func (s *Sim) addLockEdge(t *Task, h heldLock, to uintptr, toSite uint32, hi int) {
	var guards []uintptr
	for i, g := range t.held {
		if i != hi && g.addr != to {
			guards = append(guards, g.addr)
		}
	}
	for _, e := range lockGraph {
		if e.from == h.addr && e.to == to && sameSet(e.guards, guards) {
			s.checkCycle(t, e)
			return
		}
	}
	e := &lockEdge{from: h.addr, to: to, guards: guards, op: t.OpKind, fromSite: h.site, toSite: toSite,
		ephemeral: !staticAddr(h.addr) || !staticAddr(to)}
	lockGraph = append(lockGraph, e)
	s.checkCycle(t, e)
}

func sameSet(a, b []uintptr) bool {
	if len(a) != len(b) {
		return false
	}
	for _, x := range a {
		found := false
		for _, y := range b {
			if x == y {
				found = true
			}
		}
		if !found {
			return false
		}
	}
	return true
}

func disjoint(a, b []uintptr) bool {
	for _, x := range a {
		for _, y := range b {
			if x == y {
				return false
			}
		}
	}
	return true
}

// checkCycle looks for a path e.to => e.from whose edges (together with e)
// have pairwise disjoint guard sets; cycles of up to four locks are examined.
//
//go:norace
func (s *Sim) checkCycle(t *Task, e *lockEdge) {
	var path []*lockEdge
	var dfs func(at uintptr, depth int) bool
	dfs = func(at uintptr, depth int) bool {
		if depth > 3 {
			return false
		}
		for _, n := range lockGraph {
			if n.from != at || n == e {
				continue
			}
			ok := disjoint(n.guards, e.guards)
			for _, p := range path {
				if !disjoint(n.guards, p.guards) || p == n {
					ok = false
				}
			}
			// a lock of the cycle used as a guard of another edge serialises it
			if !ok {
				continue
			}
			path = append(path, n)
			if n.to == e.from || dfs(n.to, depth+1) {
				return true
			}
			path = path[:len(path)-1]
		}
		return false
	}
	if !dfs(e.to, 0) {
		return
	}
	for _, r := range e.reportedTo {
		if r == path[0].to {
			return
		}
	}
	e.reportedTo = append(e.reportedTo, path[0].to)
	msg := fmt.Sprintf("lock-order inversion: %s takes the lock of %s while holding the lock of %s", e.op, SiteName(e.toSite), SiteName(e.fromSite))
	for _, p := range path {
		msg += fmt.Sprintf("; %s takes the lock of %s while holding the lock of %s", p.op, SiteName(p.toSite), SiteName(p.fromSite))
	}
	msg += " - callers running these concurrently can deadlock"
	s.LockCycles = append(s.LockCycles, LockCycle{Task: t.ID, Op: t.OpIndex, Kind: "lock-order", Detail: msg})
}

// LockCycle is a potential deadlock found by the lock-order analysis.
type LockCycle struct {
	Task, Op int
	Kind     string
	Detail   string
}
