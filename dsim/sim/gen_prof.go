package sim

import (
	"fmt"
	"math/big"
	"strings"

	"dsim/ref"
)

func pow10big(k int) *big.Int { return ref.Pow10(k) }

// parseLitForGen turns a literal into a Decimal (hex) with the reference
// model, never with the library.
func parseLitForGen(s string) string {
	lit := ref.ParseLiteral(s, ref.LitOpts{})
	if lit.Status == ref.LitInvalid {
		panic("gen: bad literal " + s)
	}
	r := lit.Value(ref.ToNearestEven)
	return Hex(DecOf(r.N))
}

var faultKinds = []string{FaultStall, FaultTransient, FaultSticky, FaultDataErr, FaultEOFEarly}

// streamSpec draws a stream and its fault plan. total is the (estimated)
// number of bytes that will travel; marks are interesting offsets (token
// starts, bytes after a sign, delimiters).
func (g *Gen) streamSpec(total int, marks []int, errorFaults bool) StreamSpec {
	var s StreamSpec
	if !g.R.P(1, 3) {
		s.Cap = []int{1, 2, 3, 5, 8, 16, 64}[g.R.N(7)]
	}
	s.Shape = g.R.N(3)
	s.BufSz = []int{16, 17, 32, 64, 4096}[g.R.N(5)]
	if !g.R.P(1, 3) {
		n := g.R.Range(1, 4)
		for i := 0; i < n; i++ {
			s.Frags = append(s.Frags, []int{1, 1, 2, 3, 5, 8, 0}[g.R.N(7)])
		}
	}
	if g.R.P(1, 3) {
		n := g.R.Range(1, 3)
		for i := 0; i < n; i++ {
			s.WFrags = append(s.WFrags, []int{1, 2, 3, 7, 0}[g.R.N(5)])
		}
	}
	if g.R.P(1, 3) || total == 0 {
		return s // fault-free apart from fragmentation
	}
	// swarm: only a subset of the fault kinds is enabled in this run
	var enabled []string
	for _, k := range faultKinds {
		if k != FaultStall && k != FaultEOFEarly && !errorFaults {
			continue
		}
		if g.R.P(1, 2) {
			enabled = append(enabled, k)
		}
	}
	if len(enabled) == 0 {
		return s
	}
	nf := g.R.Range(1, 3)
	for i := 0; i < nf; i++ {
		off := g.R.N(total + 1)
		if len(marks) > 0 && g.R.P(2, 3) {
			off = marks[g.R.N(len(marks))] + g.R.Range(0, 2)
		}
		f := Fault{Kind: enabled[g.R.N(len(enabled))], Off: off}
		if f.Kind == FaultStall {
			f.Arg = g.R.Range(1, 5)
		} else if g.R.P(1, 2) {
			f.Arg = g.R.N(6) // which error the reader fails with
		}
		if f.Kind == FaultDataErr && f.Off == 0 {
			f.Off = 1
		}
		s.Faults = append(s.Faults, f)
	}
	return s
}

func (g *Gen) separator(spaceOnly bool) string {
	if spaceOnly {
		return strings.Repeat(" ", g.R.Range(1, 3))
	}
	seps := []string{" ", "  ", "\n", " \n", "\t", "\r\n", " \t "}
	return seps[g.R.N(len(seps))]
}

// ---------- P05 ----------

func genP05(g *Gen, p *Program) {
	g.sharedPool(p, 200)
	// a few literals recur within the run, also across epochs, i.e. across
	// legal changes of DefaultRoundingMode; some of them are short literals
	// whose value depends on the mode (subnormal window, ties)
	for i := g.R.Range(2, 5); i > 0; i-- {
		switch g.R.N(4) {
		case 0:
			g.lits = append(g.lits, fmt.Sprintf("%s%de-%d", []string{"", "-", "+"}[g.R.N(3)], g.R.Range(1, 99999), 6176+g.R.Range(0, 6)))
		case 1:
			g.lits = append(g.lits, fmt.Sprintf("%s0.%se-6176", []string{"", "-"}[g.R.N(2)], g.digits(g.R.Range(1, 6))))
		default:
			g.lits = append(g.lits, g.ValidLiteral(true, true))
		}
	}
	ne := g.R.Range(1, 3)
	for e := 0; e < ne; e++ {
		ep := Epoch{Mode: g.epochMode(4)}
		// direct entry points
		nd := g.R.Range(1, 2)
		direct := []string{"Parse", "MustParse", "UnmarshalText", "Sscan", "ScanState"}
		for t := 0; t < nd; t++ {
			tp := TaskProg{Priv: g.privSpec()}
			n := g.R.Range(1, 6)
			for i := 0; i < n; i++ {
				tp.Ops = append(tp.Ops, g.fill(direct[g.R.Pick([]int{3, 2, 3, 3, 3})], p))
			}
			ep.Tasks = append(ep.Tasks, tp)
		}
		// token streams through the real fmt scanning machinery
		ns := g.R.Range(1, 2)
		for si := 0; si < ns; si++ {
			useScanf := g.R.P(1, 3)
			var toks []string
			nt := g.R.Range(1, 8)
			for i := 0; i < nt; i++ {
				var tk string
				if g.R.P(1, 12) {
					tk = g.ScanNearMiss()
				} else if g.R.P(1, 6) {
					tk = g.InvalidLiteral(true)
				} else {
					tk = g.ValidLiteral(true, true)
				}
				toks = append(toks, tk)
			}
			prod := TaskProg{Priv: g.privSpec()}
			cons := TaskProg{Priv: g.privSpec()}
			var marks []int
			off := 0
			lead := ""
			if g.R.P(1, 4) {
				lead = g.separator(useScanf)
			}
			var pending []byte
			pending = append(pending, lead...)
			off += len(lead)
			for i, tk := range toks {
				marks = append(marks, off, off+1, off+len(tk)-1, off+len(tk))
				pending = append(pending, tk...)
				off += len(tk)
				sep := g.separator(useScanf)
				if i == len(toks)-1 && g.R.P(1, 2) {
					sep = ""
				}
				pending = append(pending, sep...)
				off += len(sep)
				// the producer writes in pieces that do not respect token boundaries
				if g.R.P(1, 2) || i == len(toks)-1 {
					for len(pending) > 0 {
						k := len(pending)
						if g.R.P(1, 2) {
							k = g.R.Range(1, k)
						}
						prod.Ops = append(prod.Ops, Op{Kind: "SWrite", I: []int64{int64(si)}, B: []string{hx(pending[:k])}})
						pending = pending[k:]
					}
				}
			}
			prod.Ops = append(prod.Ops, Op{Kind: "SClose", I: []int64{int64(si)}})
			nc := len(toks) + g.R.Range(0, 2)
			for i := 0; i < nc; i++ {
				op := Op{Kind: "Fscan", I: []int64{int64(si), 0, g.slot(nRecv)}}
				if useScanf {
					op.I[1] = 1
					op.S = []string{"%" + string("eEfFgGv"[g.R.N(7)])}
					if g.R.P(1, 25) {
						op.S = []string{"%d"}
					}
				}
				cons.Ops = append(cons.Ops, op)
			}
			cons.Ops = append(cons.Ops, Op{Kind: "Drain", I: []int64{int64(si)}})
			ep.Streams = append(ep.Streams, g.streamSpec(off, marks, true))
			ep.Tasks = append(ep.Tasks, prod, cons)
			// the same tokens through the direct entry points
			if g.R.P(1, 2) {
				tp := TaskProg{Priv: g.privSpec()}
				for _, tk := range toks {
					k := direct[g.R.N(3)]
					op := Op{Kind: k, B: []string{hx([]byte(tk))}}
					if k == "UnmarshalText" {
						op.I = []int64{g.slot(nRecv)}
					}
					tp.Ops = append(tp.Ops, op)
				}
				ep.Tasks = append(ep.Tasks, tp)
			}
		}
		p.Epochs = append(p.Epochs, ep)
	}
}

// ---------- P06 ----------

func genP06(g *Gen, p *Program) {
	g.sharedPool(p, 200)
	ne := g.R.Range(1, 2)
	for e := 0; e < ne; e++ {
		ep := Epoch{Mode: g.epochMode(3)}
		nd := g.R.Range(1, 2)
		for t := 0; t < nd; t++ {
			tp := TaskProg{Priv: g.privSpec()}
			n := g.R.Range(1, 6)
			for i := 0; i < n; i++ {
				k := []string{"TextRT", "String", "MarshalText", "Scribble", "FormatFn", "AppendM", "FormatState", "Sprintf"}[g.R.Pick([]int{6, 2, 2, 1, 1, 1, 2, 1})]
				op := g.fill(k, p)
				switch k {
				case "FormatState":
					// the %v path through a caller-supplied fmt.State, which in
					// half of the calls refuses bytes, fails or panics in Write:
					// the calls that follow must not see anything of it
					op.S = []string{"v"}
					op.I = nil
					if g.R.P(1, 2) {
						op.I = []int64{0, 0, int64(g.R.Range(1, 3)), int64(g.R.N(12))}
						if g.R.P(1, 3) {
							// one whole Write call refused, the others accepted:
							// what the State did accept must not read as
							// another value
							op.I[2], op.I[3] = 4, int64(g.R.Range(1, 3))
						} else if g.R.P(1, 4) {
							op.I[2], op.I[3] = 5, 0
						}
					}
				case "Sprintf":
					op.S = []string{"v"}
				}
				if k == "TextRT" && g.R.P(1, 4) {
					// the positional form prints every digit: long numerals the
					// other forms never produce
					op.I[0] = 6 // Format(f,-1)
					if g.R.P(1, 2) {
						// values with a long integer part and a fraction
						c := g.coef()
						n := ref.Num{Neg: g.R.P(1, 3), Coef: c, Exp: -g.R.Range(1, 14)}
						op.D[0] = Hex(DecOf(n))
					}
				}
				switch k {
				case "FormatFn":
					op.I[1] = -1
				case "AppendM":
					op.S = []string{string("vgGeEf"[g.R.N(6)])}
				}
				tp.Ops = append(tp.Ops, op)
			}
			ep.Tasks = append(ep.Tasks, tp)
		}
		ns := g.R.Range(1, 2)
		for si := 0; si < ns; si++ {
			prod := TaskProg{Priv: g.privSpec()}
			cons := TaskProg{Priv: g.privSpec()}
			nm := g.R.Range(1, 8)
			est := 0
			var marks []int
			for i := 0; i < nm; i++ {
				sep := g.separator(false)
				if i == nm-1 && g.R.P(1, 2) {
					sep = ""
				}
				d := g.PoolDec()
				// positional forms of extreme exponents are thousands of bytes long: keep some
				prod.Ops = append(prod.Ops, Op{Kind: "SProduce", D: []string{d}, I: []int64{int64(si), int64(g.R.N(len(streamProducers)))}, B: []string{hx([]byte(sep))}})
				marks = append(marks, est, est+1, est+5)
				est += 12
				if g.R.P(1, 5) {
					prod.Ops = append(prod.Ops, Op{Kind: "Scribble", I: []int64{int64(g.R.N(len(prod.Ops)))}})
				}
			}
			prod.Ops = append(prod.Ops, Op{Kind: "SClose", I: []int64{int64(si)}})
			nc := nm + g.R.Range(0, 1)
			for i := 0; i < nc; i++ {
				cons.Ops = append(cons.Ops, Op{Kind: "Fscan", I: []int64{int64(si), 0, g.slot(nRecv)}})
			}
			cons.Ops = append(cons.Ops, Op{Kind: "Drain", I: []int64{int64(si)}})
			ep.Streams = append(ep.Streams, g.streamSpec(est, marks, false))
			ep.Tasks = append(ep.Tasks, prod, cons)
		}
		p.Epochs = append(p.Epochs, ep)
	}
}

// ---------- P07 ----------

func genP07(g *Gen, p *Program) {
	g.sharedPool(p, 200)
	// values whose rendering hits ties and carries
	for i := 0; i < 3; i++ {
		g.decs = append(g.decs, g.tieDec())
	}
	kinds := []string{"AppendM", "AppendFn", "Sprintf", "FormatState", "AppendVsSprintf", "FormatFn"}
	weights := []int{5, 3, 4, 4, 2, 2}
	ep := Epoch{Mode: g.epochMode(1)}
	ep.Tasks = g.tasksOf(p, g.R.Range(1, 3), 10, kinds, weights)
	p.Epochs = append(p.Epochs, ep)
}

// tieDec returns a finite Decimal with few digits ending in 5, or of the
// form 9..9, scaled near 1.
func (g *Gen) tieDec() string {
	var c *big.Int
	switch g.R.N(4) {
	case 0:
		c = big.NewInt(5)
	case 1:
		c, _ = new(big.Int).SetString(g.digits(g.R.Range(1, 6))+"5", 10)
	case 2:
		c = new(big.Int).Sub(ref.Pow10(g.R.Range(1, 8)), big.NewInt(int64(g.R.N(2))*5))
		if g.R.P(1, 2) {
			c.Mul(c, big.NewInt(10))
			c.Add(c, big.NewInt(5))
		}
	default:
		c = big.NewInt(int64(g.R.N(1000)))
	}
	if c.Sign() <= 0 {
		c = big.NewInt(5)
	}
	n := ref.Num{Neg: g.R.P(1, 3), Coef: c, Exp: g.R.Range(-12, 8)}
	return Hex(DecOf(n))
}

// ---------- P13 ----------

func genP13(g *Gen, p *Program) {
	g.sharedPool(p, 200)
	// a few number tokens recur within the run, also across epochs, i.e.
	// across legal changes of DefaultRoundingMode; most of them have more than
	// 34 significant digits, so that their value depends on the mode
	for i := g.R.Range(1, 3); i > 0; i-- {
		var b strings.Builder
		if g.R.P(1, 3) {
			b.WriteByte('-')
		}
		switch g.R.N(4) {
		case 0: // a tie at the 34th digit
			b.WriteString(g.digits(34) + "5" + strings.Repeat("0", g.R.N(4)))
		case 1: // an integer part and a fraction
			b.WriteString(g.digits(g.R.Range(1, 30)) + "." + g.litDigits(g.R.Range(35, 45), false))
		case 2: // subnormal window
			b.WriteString(fmt.Sprintf("%de-%d", g.R.Range(1, 99999), 6176+g.R.Range(0, 6)))
		default:
			b.WriteString(g.digits(g.R.Range(35, 44)))
		}
		if g.R.P(1, 3) {
			b.WriteString(fmt.Sprintf("e%d", g.R.Range(-40, 40)))
		}
		g.jlits = append(g.jlits, b.String())
	}
	ne := g.R.Range(1, 3)
	last := uint8(0)
	for e := 0; e < ne; e++ {
		ep := Epoch{Mode: g.epochMode(3)}
		if e > 0 && ep.Mode == last && g.R.P(1, 2) {
			ep.Mode = uint8((int(last) + g.R.Range(1, 5)) % 6)
		}
		last = ep.Mode
		kinds := []string{"MarshalJSON", "UnmarshalJSON", "JSONRT", "JSONDoc", "Scribble", "JSONRT2"}
		weights := []int{3, 5, 3, 3, 1, 2}
		ep.Tasks = g.tasksOf(p, g.R.Range(1, 2), 7, kinds, weights)
		if g.R.P(2, 3) {
			si := 0
			prod := TaskProg{Priv: g.privSpec()}
			cons := TaskProg{Priv: g.privSpec()}
			nm := g.R.Range(1, 5)
			est := 0
			var marks []int
			for i := 0; i < nm; i++ {
				vals := []string{g.FiniteDec(), g.FiniteDec(), g.FiniteDec(), g.FiniteDec()}
				if g.R.P(1, 12) {
					vals[g.R.N(4)] = g.Dec()
				} else if g.R.P(1, 2) {
					vals[g.R.N(4)] = g.PoolDec()
					if isSpecBits(ParseHex(vals[0])) || isSpecBits(ParseHex(vals[1])) || isSpecBits(ParseHex(vals[2])) || isSpecBits(ParseHex(vals[3])) {
						vals = []string{g.FiniteDec(), g.FiniteDec(), g.FiniteDec(), g.FiniteDec()}
					}
				}
				prod.Ops = append(prod.Ops, Op{Kind: "JEncode", D: vals, I: []int64{int64(si), int64(g.R.N(3) / 2)}})
				marks = append(marks, est, est+5, est+20, est+40)
				est += 60
			}
			prod.Ops = append(prod.Ops, Op{Kind: "SClose", I: []int64{int64(si)}})
			nc := nm + g.R.Range(0, 1)
			for i := 0; i < nc; i++ {
				cons.Ops = append(cons.Ops, Op{Kind: "JDecode", I: []int64{int64(si)}})
			}
			cons.Ops = append(cons.Ops, Op{Kind: "Drain", I: []int64{int64(si)}})
			ep.Streams = append(ep.Streams, g.streamSpec(est, marks, true))
			ep.Tasks = append(ep.Tasks, prod, cons)
		}
		p.Epochs = append(p.Epochs, ep)
	}
}

// ---------- P14 ----------

func genP14(g *Gen, p *Program) {
	g.sharedPool(p, 200)
	kinds := []string{"Decompose", "ComposeRow", "Compose", "Scribble"}
	weights := []int{5, 4, 5, 1}
	ep := Epoch{Mode: g.epochMode(1)}
	ep.Tasks = g.tasksOf(p, g.R.Range(1, 3), 10, kinds, weights)
	// buffers around the 16-byte threshold
	for ti := range ep.Tasks {
		for bi := range ep.Tasks[ti].Priv.Bufs {
			if g.R.P(1, 2) {
				b := &ep.Tasks[ti].Priv.Bufs[bi]
				n := g.R.N(20)
				data := make([]byte, n)
				for i := range data {
					data[i] = byte(g.R.N(256))
				}
				b.Data = hx(data)
				b.Cap = []int{0, 8, 15, 16, 17, 32}[g.R.N(6)]
				if b.Cap < n {
					b.Cap = n
				}
			}
		}
	}
	p.Epochs = append(p.Epochs, ep)
}
