package sim

// ReplayFile is what a check writes for a violation: the minimised Program
// (operations, operands, schedule and fault plan, all explicit) and the
// violation it reproduces.
type ReplayFile struct {
	Property  string   `json:"property"`
	Class     string   `json:"class"`
	Op        string   `json:"op"`
	Detail    string   `json:"detail"`
	Signature string   `json:"signature"`
	Seed      uint64   `json:"seed"`
	Run       uint64   `json:"run"`
	TreeHash  string   `json:"tree_hash"`
	Minimised bool     `json:"minimised"`
	RaceText  string   `json:"race_report,omitempty"`
	Trace     []string `json:"trace,omitempty"`
	Program   *Program `json:"program"`
	Original  *Program `json:"original_program,omitempty"`
	Notes     []string `json:"notes,omitempty"`
	// Warmup is set when the violation only reproduces after the runs the
	// same worker process executed before it (the library kept state across
	// calls for the life-time of the process): the replay regenerates and
	// executes Count runs From, From+Stride, ... first.
	Warmup *Warmup `json:"warmup,omitempty"`
}

// Warmup identifies the runs a worker executed before the recorded one.
type Warmup struct {
	Profile string `json:"profile"`
	Seed    uint64 `json:"seed"`
	From    uint64 `json:"from"`
	Stride  uint64 `json:"stride"`
	Count   int    `json:"count"`
}
