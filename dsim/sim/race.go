package sim

import (
	"sort"
	"strings"
)

const libPrefix = "github.com/woodsbury/decimal128."

// RaceReport is the digest of one report of the Go race detector.
type RaceReport struct {
	Text string
	// Frames: for each of the two conflicting accesses the innermost frame
	// inside the library ("" if the stack has none).
	Frames [2]string
	// Lines: the source position of those frames.
	Lines [2]string
	// Top: the innermost frame of each access, whatever package it is in.
	Top [2]string
	// InTask: the access happened in the operation code of a simulated
	// caller (its stack passes through runTask).
	InTask [2]bool
}

// Signature identifies the racing pair of library functions.
func (r *RaceReport) Signature() string {
	f := []string{r.Frames[0], r.Frames[1]}
	sort.Strings(f)
	return f[0] + "|" + f[1]
}

// InLibrary reports whether at least one access has a library frame on its
// stack. A report without any is a defect of the harness itself.
func (r *RaceReport) InLibrary() bool { return r.Frames[0] != "" || r.Frames[1] != "" }

// ParseRace extracts the first race report from the stderr of a race build.
func ParseRace(stderr string) *RaceReport {
	i := strings.Index(stderr, "WARNING: DATA RACE")
	if i < 0 {
		return nil
	}
	txt := stderr[i:]
	if j := strings.Index(txt[18:], "=================="); j >= 0 {
		txt = txt[:18+j]
	}
	r := &RaceReport{Text: txt}
	sec := -1
	lines := strings.Split(txt, "\n")
	for k := 0; k < len(lines); k++ {
		l := lines[k]
		t := strings.TrimSpace(l)
		switch {
		case strings.HasPrefix(t, "Read at "), strings.HasPrefix(t, "Write at "), strings.HasPrefix(t, "Previous read at "), strings.HasPrefix(t, "Previous write at "),
			strings.HasPrefix(t, "Atomic read at"), strings.HasPrefix(t, "Atomic write at"), strings.HasPrefix(t, "Previous atomic"):
			sec++
			continue
		case strings.HasPrefix(t, "Goroutine "):
			sec = 2
			continue
		}
		if sec >= 0 && sec <= 1 && r.Top[sec] == "" && t != "" && !strings.HasPrefix(t, "/") && strings.Contains(t, "(") {
			r.Top[sec] = t
		}
		if sec >= 0 && sec <= 1 && strings.Contains(t, "(*epochRun).runTask(") {
			r.InTask[sec] = true
		}
		if sec < 0 || sec > 1 || r.Frames[sec] != "" {
			continue
		}
		if strings.HasPrefix(t, libPrefix) {
			fn := strings.TrimPrefix(t, libPrefix)
			if p := strings.Index(fn, "("); p >= 0 && strings.HasSuffix(fn, ")") {
				// strip the argument list "()", keep method receivers like "(*digits).pad"
				if q := strings.LastIndex(fn, "("); q > 0 {
					fn = fn[:q]
				}
			}
			r.Frames[sec] = fn
			if k+1 < len(lines) {
				pos := strings.TrimSpace(lines[k+1])
				if sp := strings.Index(pos, " "); sp >= 0 {
					pos = pos[:sp]
				}
				r.Lines[sec] = pos
			}
		}
	}
	return r
}

// SameRace reports whether a race report belongs to the recorded signature
// "f|g": which two accesses the detector pairs up first depends on the order
// in which the tasks ran, so one common library function is enough.
func SameRace(sig string, r *RaceReport) bool {
	if r == nil {
		return false
	}
	if !r.InLibrary() {
		return sig == "|" && (r.InStdlibOnValues() || r.BetweenCallers())
	}
	for _, f := range strings.Split(sig, "|") {
		if f != "" && (f == r.Frames[0] || f == r.Frames[1]) {
			return true
		}
	}
	return false
}

// InStdlibOnValues reports whether both accesses happen inside the standard
// library or the runtime (not in harness code): the harness shares nothing
// writable between tasks, so the memory must be reachable from values the
// library handed to two callers (a shared error value, a shared buffer).
func (r *RaceReport) InStdlibOnValues() bool {
	for _, t := range r.Top {
		if t == "" || strings.HasPrefix(t, "dsim/") || strings.HasPrefix(t, "main.") {
			return false
		}
	}
	return true
}

// BetweenCallers reports whether the two accesses are made by the own code of
// two simulated callers (what a caller does with its results and buffers:
// reading a result, overwriting a slice it was given, recycling it) with no
// library frame on either stack. The callers share nothing writable with each
// other, and every harness structure they share is accessed in functions the
// detector does not see; so the memory must have been handed out by the
// library to both of them (a package-level table returned as a result, say).
func (r *RaceReport) BetweenCallers() bool {
	return !r.InLibrary() && r.InTask[0] && r.InTask[1]
}
