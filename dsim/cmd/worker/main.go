// Command worker executes simulated runs of one profile against the
// instrumented copy of the library it was linked with.
package main

import (
	"bufio"
	"bytes"
	"encoding/json"
	"flag"
	"fmt"
	"hash/fnv"
	"os"
	"os/exec"
	"runtime/pprof"
	"sort"
	"strings"
	"sync/atomic"
	"time"

	"dsim/sim"

	"github.com/woodsbury/decimal128"
)

type runLine struct {
	Run        uint64          `json:"run"`
	Hash       string          `json:"hash"`
	EpochKeys  []string        `json:"epoch_keys,omitempty"`
	OpKeys     [][]string      `json:"op_keys,omitempty"`
	Violations []sim.Violation `json:"violations,omitempty"`
	Program    *sim.Program    `json:"program,omitempty"`
}

// A wall-clock watchdog: a single run that takes minutes means the simulator
// itself is stuck (runs take milliseconds; the step budget bounds the library).
// That is trouble of the harness: exit 2 with the run index, never a verdict.
var watchRun, watchStart atomic.Int64

func watchdog(limit time.Duration) {
	for {
		time.Sleep(5 * time.Second)
		if st := watchStart.Load(); st != 0 && time.Since(time.Unix(0, st)) > limit {
			fmt.Fprintf(os.Stderr, "worker: run %d has been executing for more than %v of wall-clock time: the simulator is stuck (harness trouble, no verdict)\n", watchRun.Load(), limit)
			os.Exit(2)
		}
	}
}

type summary struct {
	Profile     string         `json:"profile"`
	Seed        uint64         `json:"seed"`
	Runs        int            `json:"runs"`
	FirstRun    uint64         `json:"first_run"`
	LastRun     uint64         `json:"last_run"`
	Ops         int            `json:"ops"`
	Steps       uint64         `json:"steps"`
	Switches    uint64         `json:"switches"`
	Preempts    uint64         `json:"preempts"`
	SyncPre     uint64         `json:"sync_event_preemptions"`
	FairYields  uint64         `json:"fair_yields"`
	SharedIn    int            `json:"shared_inputs"`
	Faults      map[string]int `json:"faults"`
	FaultyRuns  int            `json:"faulty_runs"`
	CleanRuns   int            `json:"fault_free_runs"`
	NoErrRuns   int            `json:"runs_without_error_faults"`
	Nontrivial  []string       `json:"nontrivial"` // distinct (program, schedule, faults) hashes
	Schedules   []string       `json:"schedules"`
	Overlaps    []string       `json:"overlaps"`
	SitesHit    []int          `json:"sites_hit"`
	Sites       int            `json:"sites"`
	OpKinds     map[string]int `json:"op_kinds"`
	MaxOpSteps  uint64         `json:"max_op_steps"`
	BigCalls    uint64         `json:"big_calls"`
	BigCost     uint64         `json:"big_cost"`
	Violations  int            `json:"violations"`
	Deadlocks   int            `json:"deadlocks"`
	WallS       float64        `json:"wall_s"`
	Samples     []*sim.Program `json:"samples,omitempty"`
	SampleTrace []string       `json:"sample_trace,omitempty"`
}

func main() {
	profile := flag.String("profile", "P20", "profile name")
	seed := flag.Uint64("seed", 1, "VERIF_SEED")
	from := flag.Uint64("from", 0, "first run index")
	count := flag.Int("n", 100, "number of runs for this worker")
	stride := flag.Uint64("stride", 1, "run index stride")
	budget := flag.Uint64("budget", 50_000_000, "step budget per operation")
	out := flag.String("out", "", "JSONL output (default stdout)")
	progress := flag.String("progress", "", "file that always holds the index of the run in progress")
	hashlog := flag.Bool("hashlog", false, "emit one line per run with its event-log hash")
	replay := flag.String("replay", "", "execute the Program in this file instead of generating")
	dump := flag.Bool("dump", false, "print the generated programs instead of running them")
	coldFlag := flag.Bool("cold", false, "the first program of this process runs its concurrent pass before its sequential reference pass")
	deadline := flag.Duration("deadline", 0, "stop starting new runs after this long")
	minimize := flag.String("minimize", "", "minimise the violation recorded in this replay file (in place)")
	raceMin := flag.Bool("racemin", false, "with -minimize: the violation is a race report; candidates run in child processes")
	minBudget := flag.Int("minbudget", 400, "maximal number of minimisation candidates")
	focus := flag.String("focus", "", "comma separated operation kinds: generate focus programs (P20) on these kinds")
	permute := flag.Bool("permute", false, "execute the epochs of every program in reverse order")
	epochKeys := flag.Bool("epochkeys", false, "emit one line per run with the digest of every epoch's results")
	emitKeys := flag.Bool("emitkeys", false, "with -replay: print the result key of every operation")
	noCold := flag.Bool("nocold", false, "with -replay: ignore the program's cold flag (sequential pass first)")
	histCheck := flag.String("histcheck", "", "replay file: execute its program in two fresh processes (epochs in order / reversed) and compare the results of every epoch")
	flag.Parse()
	go watchdog(4 * time.Minute)
	setHashKey(*seed, *from, *replay, *minimize, *histCheck)
	var focusKinds []string
	if *focus != "" {
		focusKinds = strings.Split(*focus, ",")
	}
	if *histCheck != "" {
		_, detail, differs, err := histCompare(*histCheck, *budget)
		if err != nil {
			fmt.Fprintln(os.Stderr, "worker:", err)
			os.Exit(2)
		}
		if differs {
			fmt.Println(detail)
			os.Exit(1)
		}
		return
	}

	if pf := os.Getenv("DSIM_CPUPROFILE"); pf != "" {
		f, err := os.Create(pf)
		if err == nil {
			pprof.StartCPUProfile(f)
			defer pprof.StopCPUProfile()
		}
	}
	if err := sim.CheckLayout(); err != nil {
		fmt.Fprintln(os.Stderr, "worker:", err)
		os.Exit(2)
	}
	sim.InitShared()

	w := bufio.NewWriter(os.Stdout)
	if *out != "" {
		f, err := os.Create(*out)
		if err != nil {
			fmt.Fprintln(os.Stderr, "worker:", err)
			os.Exit(2)
		}
		defer f.Close()
		w = bufio.NewWriter(f)
	}
	defer w.Flush()
	enc := json.NewEncoder(w)

	if *minimize != "" {
		os.Exit(doMinimise(*minimize, *raceMin, *minBudget, *budget))
	}

	if *replay != "" {
		data, err := os.ReadFile(*replay)
		if err != nil {
			fmt.Fprintln(os.Stderr, "worker:", err)
			os.Exit(2)
		}
		var rf sim.ReplayFile
		if err := json.Unmarshal(data, &rf); err != nil || rf.Program == nil {
			fmt.Fprintln(os.Stderr, "worker: bad replay file:", err)
			os.Exit(2)
		}
		prof := sim.Profiles[rf.Program.Profile]
		if prof == nil {
			fmt.Fprintln(os.Stderr, "worker: unknown profile in replay file")
			os.Exit(2)
		}
		doWarmup(rf.Warmup, *budget)
		if *noCold {
			rf.Program.Cold = false
		}
		opt := &sim.Options{Budget: *budget, Sites: decimal128.VerifSiteCount, Property: prof.Property, Checks: prof.Checks, Reverse: prof.Reverse, Trace: true, Permute: *permute, KeepKeys: *emitKeys}
		watchRun.Store(int64(rf.Program.Run))
		watchStart.Store(time.Now().UnixNano()) // a replay that never returns ends with exit 2, too
		o := sim.Execute(rf.Program, opt)
		rl := runLine{Run: rf.Program.Run, Hash: fmt.Sprintf("%016x", o.Hash), Violations: o.Violations}
		if *emitKeys {
			rl.OpKeys = o.EpochOpKeys
		}
		enc.Encode(rl)
		w.Flush()
		if o.Deadlock {
			fmt.Fprintln(os.Stderr, "worker: simulated deadlock (harness defect)")
			os.Exit(2)
		}
		if len(o.Violations) > 0 {
			os.Exit(1)
		}
		return
	}

	prof := sim.Profiles[*profile]
	if prof == nil {
		fmt.Fprintln(os.Stderr, "worker: unknown profile", *profile)
		os.Exit(2)
	}
	start := time.Now()
	sum := summary{Profile: prof.Name, Seed: *seed, Faults: map[string]int{}, OpKinds: map[string]int{}, Sites: decimal128.VerifSiteCount, FirstRun: *from}
	nontrivial := map[uint64]bool{}
	schedules := map[uint64]bool{}
	overlaps := map[string]bool{}
	siteHit := make([]bool, decimal128.VerifSiteCount+1)
	for i := 0; i < *count; i++ {
		if *deadline > 0 && time.Since(start) > *deadline {
			break
		}
		run := *from + uint64(i)**stride
		var p *sim.Program
		var g *sim.Gen
		if len(focusKinds) > 0 {
			p, g = sim.GenerateFocus(prof, *seed, run, focusKinds)
		} else {
			p, g = sim.Generate(prof, *seed, run)
		}
		if *coldFlag && i == 0 {
			p.Cold = true
		}
		saveProgress := func() {
			// the driver reads this file if the race detector kills the process
			if *progress != "" {
				b, _ := json.Marshal(p)
				os.WriteFile(*progress, b, 0o644)
			}
		}
		saveProgress()
		watchRun.Store(int64(run))
		watchStart.Store(time.Now().UnixNano())
		if *dump {
			enc.Encode(p)
			continue
		}
		opt := &sim.Options{Budget: *budget, Sites: decimal128.VerifSiteCount, Property: prof.Property, Checks: prof.Checks, Reverse: prof.Reverse, Permute: *permute}
		if !*permute {
			// the permuted twin of a focus run compares results only; it runs unscheduled
			opt.Plan = func(ei int, steps [][]uint64) { sim.PlanSchedule(g, p, ei, steps); saveProgress() }
		}
		if len(sum.Samples) < 2 && i%7 == 3 {
			opt.Trace = true
		}
		o := sim.Execute(p, opt)
		if p.Cold && *out != "" {
			// the same program and schedule in two more fresh processes: cold
			// again, and after a sequential pass; every result must agree
			tmp := *out + ".coldcand"
			b, _ := json.Marshal(sim.ReplayFile{Program: p})
			if os.WriteFile(tmp, b, 0o644) == nil {
				if op, d, differs, err := histCompare(tmp, *budget); err == nil && differs {
					o.Violations = append(o.Violations, sim.Violation{Property: prof.Property, Class: sim.VHistory, Op: op, Detail: d})
				}
				os.Remove(tmp)
			}
		}
		sum.Runs++
		sum.LastRun = run
		sum.Ops += o.Ops
		sum.Steps += o.Steps
		sum.BigCalls += o.BigCalls
		sum.BigCost += o.BigCost
		sum.Switches += o.Switches
		sum.Preempts += o.Preempts
		sum.SyncPre += o.SyncPre
		sum.FairYields += o.FairYields
		sum.SharedIn += o.SharedIn
		if o.MaxOpSteps > sum.MaxOpSteps {
			sum.MaxOpSteps = o.MaxOpSteps
		}
		nf, nerr := 0, 0
		for _, k := range o.FaultKinds {
			sum.Faults[k] += o.Faults[k]
			if k != "reader-parked" {
				nf += o.Faults[k]
			}
			switch k {
			case sim.FaultTransient, sim.FaultSticky, sim.FaultDataErr, sim.FaultEOFEarly:
				nerr += o.Faults[k]
			}
		}
		if nerr == 0 {
			sum.NoErrRuns++
		}
		if nf > 0 {
			sum.FaultyRuns++
		} else {
			sum.CleanRuns++
		}
		for _, ep := range p.Epochs {
			for _, t := range ep.Tasks {
				for _, op := range t.Ops {
					sum.OpKinds[op.Kind]++
				}
			}
		}
		ph := progHash(p)
		if o.Preempts > 0 || nf > 0 || o.Reused > 0 || historyRun(p) {
			h := fnv.New64a()
			fmt.Fprintf(h, "%x/%x/%v", ph, o.SchedHash, o.Faults)
			nontrivial[h.Sum64()] = true
		}
		schedules[o.SchedHash] = true
		for _, ov := range o.Overlaps {
			overlaps[fmt.Sprintf("%s@%d|%s", ov.A, ov.Site, ov.B)] = true
		}
		for s, c := range o.SiteHits {
			if c > 0 && s < len(siteHit) {
				siteHit[s] = true
			}
		}
		if o.Deadlock {
			sum.Deadlocks++
		}
		if opt.Trace && len(sum.Samples) < 2 {
			sum.Samples = append(sum.Samples, p)
			if len(sum.SampleTrace) == 0 && len(o.Trace) > 0 {
				n := len(o.Trace)
				if n > 12 {
					n = 12
				}
				sum.SampleTrace = o.Trace[:n]
			}
		}
		if len(o.Violations) > 0 {
			sum.Violations++
			enc.Encode(runLine{Run: run, Hash: fmt.Sprintf("%016x", o.Hash), Violations: o.Violations, Program: p})
			w.Flush() // survives a later watchdog exit
		} else if *hashlog {
			enc.Encode(runLine{Run: run, Hash: fmt.Sprintf("%016x", o.Hash)})
		}
		if *epochKeys {
			rl := runLine{Run: run, Hash: "epochs"}
			for _, k := range o.EpochKeys {
				rl.EpochKeys = append(rl.EpochKeys, fmt.Sprintf("%x", k))
			}
			enc.Encode(rl)
		}
	}
	for h := range nontrivial {
		sum.Nontrivial = append(sum.Nontrivial, fmt.Sprintf("%x", h))
	}
	sort.Strings(sum.Nontrivial)
	for h := range schedules {
		sum.Schedules = append(sum.Schedules, fmt.Sprintf("%x", h))
	}
	sort.Strings(sum.Schedules)
	for k := range overlaps {
		sum.Overlaps = append(sum.Overlaps, k)
	}
	sort.Strings(sum.Overlaps)
	for s, hit := range siteHit {
		if hit {
			sum.SitesHit = append(sum.SitesHit, s)
		}
	}
	sum.WallS = time.Since(start).Seconds()
	if !*dump {
		enc.Encode(map[string]any{"summary": sum})
	}
	w.Flush()
	if sum.Deadlocks > 0 {
		fmt.Fprintln(os.Stderr, "worker: simulated deadlock (harness defect)")
		os.Exit(2)
	}
}

// histCompare executes the program of a replay file in two fresh child
// processes, once with its epochs in order and once reversed, and compares
// the results of every operation of every epoch.
func histCompare(path string, budget uint64) (op string, detail string, differs bool, err error) {
	// a cold program: concurrent first use of the library against the same
	// calls, with the same schedule, after a sequential pass over them
	coldProg := false
	if data, e := os.ReadFile(path); e == nil {
		var rf sim.ReplayFile
		if json.Unmarshal(data, &rf) == nil && rf.Program != nil {
			coldProg = rf.Program.Cold
		}
	}
	run := func(permute bool) ([][]string, error) {
		args := []string{"-replay", path, "-emitkeys", "-budget", fmt.Sprint(budget)}
		if permute && coldProg {
			args = append(args, "-nocold")
		} else if permute {
			args = append(args, "-permute")
		}
		cmd := exec.Command(os.Args[0], args...)
		var ob, eb bytes.Buffer
		cmd.Stdout, cmd.Stderr = &ob, &eb
		if err := cmd.Run(); err != nil {
			if ee, ok := err.(*exec.ExitError); !ok || ee.ExitCode() != 1 {
				return nil, fmt.Errorf("child failed: %v %s", err, eb.String())
			}
		}
		var rl runLine
		if err := json.Unmarshal(bytes.TrimSpace(ob.Bytes()), &rl); err != nil {
			return nil, err
		}
		return rl.OpKeys, nil
	}
	a, err := run(false)
	if err != nil {
		return "", "", false, err
	}
	b, err := run(true)
	if err != nil {
		return "", "", false, err
	}
	for ei := range a {
		if ei >= len(b) || len(a[ei]) != len(b[ei]) {
			return "?", fmt.Sprintf("epoch %d produced a different number of results", ei), true, nil
		}
		for i := range a[ei] {
			if a[ei][i] != b[ei][i] {
				f := strings.SplitN(a[ei][i], " ", 3)
				g := strings.SplitN(b[ei][i], " ", 3)
				kind := "?"
				if len(f) == 3 {
					kind = f[1]
				}
				ka, kb := a[ei][i], b[ei][i]
				if len(f) == 3 && len(g) == 3 {
					ka, kb = f[2], g[2]
				}
				if coldProg {
					return kind, fmt.Sprintf("epoch %d operation %s: callers that are the first users of the library in their process, running concurrently, get %.160s; the same calls under the same schedule after a sequential pass over them (fresh process) give %.160s", ei, f[0]+" "+kind, ka, kb), true, nil
				}
				return kind, fmt.Sprintf("epoch %d operation %s: epochs in program order give %.160s, the same epochs executed in reverse order (fresh process) give %.160s", ei, f[0]+" "+kind, ka, kb), true, nil
			}
		}
	}
	return "", "", false, nil
}

// doWarmup re-creates the process history a violation depends on.
func doWarmup(w *sim.Warmup, budget uint64) {
	if w == nil {
		return
	}
	prof := sim.Profiles[w.Profile]
	if prof == nil {
		return
	}
	for i := 0; i < w.Count; i++ {
		run := w.From + uint64(i)*w.Stride
		var p *sim.Program
		var g *sim.Gen
		if len(w.Focus) > 0 {
			p, g = sim.GenerateFocus(prof, w.Seed, run, w.Focus)
		} else {
			p, g = sim.Generate(prof, w.Seed, run)
		}
		opt := &sim.Options{Budget: budget, Sites: decimal128.VerifSiteCount, Property: prof.Property, Checks: false, Reverse: prof.Reverse}
		opt.Plan = func(ei int, steps [][]uint64) { sim.PlanSchedule(g, p, ei, steps) }
		sim.Execute(p, opt)
	}
}

func doMinimise(path string, race bool, maxTries int, budget uint64) int {
	data, err := os.ReadFile(path)
	if err != nil {
		fmt.Fprintln(os.Stderr, "worker:", err)
		return 2
	}
	var rf sim.ReplayFile
	if err := json.Unmarshal(data, &rf); err != nil || rf.Program == nil {
		fmt.Fprintln(os.Stderr, "worker: bad replay file:", err)
		return 2
	}
	prof := sim.Profiles[rf.Program.Profile]
	if prof == nil {
		return 2
	}
	var last *sim.Violation
	var lastRace *sim.RaceReport
	hist := rf.Class == sim.VHistory
	still := func(c *sim.Program) bool {
		if hist {
			tmp := path + ".cand"
			b, _ := json.Marshal(sim.ReplayFile{Program: c})
			if os.WriteFile(tmp, b, 0o644) != nil {
				return false
			}
			defer os.Remove(tmp)
			op, d, differs, err := histCompare(tmp, budget)
			if err != nil || !differs || op != rf.Op {
				return false
			}
			rf.Detail = d
			return true
		}
		if race {
			tmp := path + ".cand"
			b, _ := json.Marshal(sim.ReplayFile{Program: c, Warmup: rf.Warmup})
			if os.WriteFile(tmp, b, 0o644) != nil {
				return false
			}
			defer os.Remove(tmp)
			cmd := exec.Command(os.Args[0], "-replay", tmp, "-budget", fmt.Sprint(budget))
			cmd.Env = append(os.Environ(), "GORACE=halt_on_error=1 exitcode=66")
			var eb bytes.Buffer
			cmd.Stderr = &eb
			cmd.Stdout = nil
			cmd.Run()
			rr := sim.ParseRace(eb.String())
			if !sim.SameRace(rf.Signature, rr) {
				return false
			}
			lastRace = rr
			return true
		}
		if c.Cold {
			// the violation needs the library's untouched state: every
			// candidate runs in a fresh process
			tmp := path + ".cand"
			b, _ := json.Marshal(sim.ReplayFile{Program: c})
			if os.WriteFile(tmp, b, 0o644) != nil {
				return false
			}
			defer os.Remove(tmp)
			cmd := exec.Command(os.Args[0], "-replay", tmp, "-budget", fmt.Sprint(budget))
			var ob bytes.Buffer
			cmd.Stdout = &ob
			cmd.Run()
			var l runLine
			if json.Unmarshal(bytes.TrimSpace(ob.Bytes()), &l) != nil {
				return false
			}
			for i := range l.Violations {
				if l.Violations[i].Sig() == rf.Signature {
					last = &l.Violations[i]
					return true
				}
			}
			return false
		}
		opt := &sim.Options{Budget: budget, Sites: decimal128.VerifSiteCount, Property: prof.Property, Checks: prof.Checks, Reverse: prof.Reverse}
		o := sim.Execute(c, opt)
		if o.Deadlock {
			return false
		}
		for i := range o.Violations {
			if o.Violations[i].Sig() == rf.Signature {
				last = &o.Violations[i]
				return true
			}
		}
		return false
	}
	if !race {
		doWarmup(rf.Warmup, budget)
	}
	if !still(rf.Program) {
		fmt.Fprintln(os.Stderr, "worker: the recorded violation does not reproduce; not minimised")
		return 3
	}
	orig := rf.Program
	min, tries := sim.Minimise(rf.Program, still, maxTries)
	if !still(min) { // re-establish last/lastRace for the final program
		min = orig
	}
	rf.Program = min
	rf.Minimised = true
	if orig.Size() != min.Size() {
		rf.Original = orig
	}
	rf.Notes = append(rf.Notes, fmt.Sprintf("minimised with %d candidate executions: size %d -> %d", tries, orig.Size(), min.Size()))
	if last != nil {
		rf.Detail = last.Detail
	}
	if lastRace != nil {
		rf.RaceText = lastRace.Text
	}
	if !race && !hist && !min.Cold {
		opt := &sim.Options{Budget: budget, Sites: decimal128.VerifSiteCount, Property: prof.Property, Checks: prof.Checks, Reverse: prof.Reverse, Trace: true}
		o := sim.Execute(min, opt)
		rf.Trace = o.Trace
	}
	b, _ := json.MarshalIndent(&rf, "", " ")
	if err := os.WriteFile(path, b, 0o644); err != nil {
		fmt.Fprintln(os.Stderr, "worker:", err)
		return 2
	}
	return 0
}

func progHash(p *sim.Program) uint64 {
	// the schedule is part of the Program, so strip it for the program hash
	h := fnv.New64a()
	for _, ep := range p.Epochs {
		fmt.Fprintf(h, "E%d;", ep.Mode)
		for _, t := range ep.Tasks {
			h.Write([]byte("T;"))
			for _, op := range t.Ops {
				fmt.Fprintf(h, "%s|%v|%v|%v|%v;", op.Kind, op.D, op.I, op.S, op.B)
			}
		}
		for _, s := range ep.Streams {
			fmt.Fprintf(h, "S%v;", s)
		}
	}
	return h.Sum64()
}

// historyRun reports whether some task calls into the library at least twice
// on caller-owned objects it keeps (a non-trivial history).
func historyRun(p *sim.Program) bool {
	for _, ep := range p.Epochs {
		for _, t := range ep.Tasks {
			n := 0
			for _, op := range t.Ops {
				switch op.Kind {
				case "AppendFn", "AppendM", "Int", "Rat", "Float", "Decompose", "ComposeRow", "Compose", "UnmarshalJSON", "UnmarshalText", "JDecode", "Fscan", "Sscan":
					n++
				}
			}
			if n >= 2 {
				return true
			}
		}
	}
	return false
}

// setHashKey fixes VERIF_HASHKEY, which the stand-ins for hash/maphash and
// math/rand in the instrumented copy read at their first use: the key
// recorded in the program when one is replayed, a function of (seed, first
// run of this process) otherwise. Must run before the first library call.
func setHashKey(seed, from uint64, files ...string) {
	key := (seed+1)*0x9e3779b97f4a7c15 ^ (from+1)*0xd6e8feb86659fd93
	for _, f := range files {
		if f == "" {
			continue
		}
		var rf sim.ReplayFile
		if data, err := os.ReadFile(f); err == nil && json.Unmarshal(data, &rf) == nil && rf.Program != nil && rf.Program.HashKey != 0 {
			key = rf.Program.HashKey
		}
	}
	if key == 0 {
		key = 1
	}
	sim.ProcessHashKey = key
	os.Setenv("VERIF_HASHKEY", fmt.Sprint(key))
}
