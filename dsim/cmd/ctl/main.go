// Command ctl drives one check: it fans simulated runs out to worker
// processes, collects their summaries, triages violations against the
// committed known-findings file, minimises and re-verifies what is left, and
// writes the evidence file.
package main

import (
	"bufio"
	"bytes"
	"context"
	"crypto/sha256"
	"encoding/json"
	"flag"
	"fmt"
	"os"
	"os/exec"
	"path/filepath"
	"regexp"
	"runtime"
	"sort"
	"strings"
	"sync"
	"time"

	"dsim/sim"
)

type tierCfg struct {
	profile   string
	plain     int
	race      int
	alt       int // runs with the second toolchain's standard library
	deadlineS int
}

var cfgs = map[string]map[string]tierCfg{
	"C20": {"quick": {"P20", 24000, 1920, 0, 90}, "thorough": {"P20", 2400000, 192000, 0, 1500}},
	"C05": {"quick": {"P05", 32000, 0, 0, 90}, "thorough": {"P05", 3200000, 0, 480000, 1500}},
	"C06": {"quick": {"P06", 32000, 0, 0, 90}, "thorough": {"P06", 2400000, 0, 480000, 1500}},
	"C07": {"quick": {"P07", 48000, 0, 8000, 90}, "thorough": {"P07", 4800000, 0, 960000, 1500}},
	"C10": {"quick": {"P10", 48000, 0, 0, 90}, "thorough": {"P10", 4800000, 0, 0, 1500}},
	"C13": {"quick": {"P13", 32000, 0, 0, 90}, "thorough": {"P13", 2400000, 0, 480000, 1500}},
	"C14": {"quick": {"P14", 64000, 0, 0, 90}, "thorough": {"P14", 6400000, 0, 0, 1500}},
}

type known struct {
	ID       string `json:"id"`
	Property string `json:"property"`
	Class    string `json:"class"`
	Op       string `json:"op"`
	Detail   string `json:"detail_regex"`
	What     string `json:"what"`
	re       *regexp.Regexp
}

type knownFile struct {
	Known []known  `json:"known"`
	Fixed []string `json:"fixed"`
}

type runLine struct {
	Run        uint64          `json:"run"`
	Hash       string          `json:"hash"`
	EpochKeys  []string        `json:"epoch_keys,omitempty"`
	Violations []sim.Violation `json:"violations,omitempty"`
	Program    *sim.Program    `json:"program,omitempty"`
	Summary    *summary        `json:"summary,omitempty"`
}

type summary struct {
	Profile     string         `json:"profile"`
	Runs        int            `json:"runs"`
	Ops         int            `json:"ops"`
	Steps       uint64         `json:"steps"`
	Switches    uint64         `json:"switches"`
	Preempts    uint64         `json:"preempts"`
	SyncPre     uint64         `json:"sync_event_preemptions"`
	FairYields  uint64         `json:"fair_yields"`
	SharedIn    int            `json:"shared_inputs"`
	Faults      map[string]int `json:"faults"`
	FaultyRuns  int            `json:"faulty_runs"`
	CleanRuns   int            `json:"fault_free_runs"`
	NoErrRuns   int            `json:"runs_without_error_faults"`
	Nontrivial  []string       `json:"nontrivial"`
	Schedules   []string       `json:"schedules"`
	Overlaps    []string       `json:"overlaps"`
	SitesHit    []int          `json:"sites_hit"`
	Sites       int            `json:"sites"`
	OpKinds     map[string]int `json:"op_kinds"`
	MaxOpSteps  uint64         `json:"max_op_steps"`
	BigCalls    uint64         `json:"big_calls"`
	BigCost     uint64         `json:"big_cost"`
	Violations  int            `json:"violations"`
	WallS       float64        `json:"wall_s"`
	Samples     []*sim.Program `json:"samples,omitempty"`
	SampleTrace []string       `json:"sample_trace,omitempty"`
}

type found struct {
	v     sim.Violation
	run   uint64
	prog  *sim.Program
	race  *sim.RaceReport
	bin   string
	nw    int
	base  uint64
	focus []string
}

var (
	work, verif, id, tier string
	seed                  uint64
	budget                uint64 = 50_000_000
)

func fail(format string, a ...any) {
	fmt.Fprintf(os.Stderr, "ctl: "+format+"\n", a...)
	os.Exit(2)
}

func main() {
	flag.StringVar(&id, "id", "", "property id")
	flag.StringVar(&tier, "tier", "quick", "quick or thorough")
	flag.StringVar(&work, "work", "", "scratch directory holding the built workers")
	flag.StringVar(&verif, "verif", "/verif", "verification directory")
	flag.Uint64Var(&seed, "seed", 1, "VERIF_SEED")
	replay := flag.String("replay", "", "replay file")
	treeHash := flag.String("tree", "", "hash of the library sources")
	altVersion := flag.String("altgo", "", "version string of the second toolchain, if its worker was built")
	scale := flag.Float64("scale", 1, "multiply the run counts (testing)")
	flag.Parse()
	cfg, ok := cfgs[id][tier]
	if !ok {
		fail("no check for %s/%s", id, tier)
	}
	start := time.Now()
	kf := loadKnown()

	if *replay != "" {
		os.Exit(doReplay(*replay, cfg))
	}

	nw := runtime.NumCPU()
	if nw > 16 {
		nw = 16
	}
	if nw < 1 {
		nw = 1
	}
	deadline := time.Duration(cfg.deadlineS) * time.Second
	var mu sync.Mutex
	var sums []summary
	var viols []found
	var raceReports, raceRuns, altRuns, harnessTrouble int
	var trouble []string

	epochKeys := map[string]map[uint64]string{} // label -> run -> joined epoch digests
	nwAll := nw
	runBatch := func(bin string, total int, base uint64, race bool, label string, extra ...string) {
		if total <= 0 {
			return
		}
		nw := nwAll
		if strings.HasPrefix(label, "focus") && nw > 4 {
			// state that accumulates over the life-time of a process (caches
			// with a budget, tables that grow) needs long-lived processes
			nw = 4
		}
		total = int(float64(total) * *scale)
		per := (total + nw - 1) / nw
		var wg sync.WaitGroup
		for w := 0; w < nw; w++ {
			wg.Add(1)
			go func(w int) {
				defer wg.Done()
				from := base + uint64(w)
				left := per
				restarts := 0
				for left > 0 {
					out := filepath.Join(work, fmt.Sprintf("out-%s-%d.jsonl", label, w))
					prog := filepath.Join(work, fmt.Sprintf("prog-%s-%d", label, w))
					os.Remove(prog)
					cold := strings.HasPrefix(label, "cold")
					nruns := left
					if cold {
						nruns = 1 // one program per process: what matters is the first use
					}
					args := []string{"-profile", cfg.profile, "-seed", fmt.Sprint(seed), "-from", fmt.Sprint(from), "-n", fmt.Sprint(nruns),
						"-stride", fmt.Sprint(nw), "-out", out, "-budget", fmt.Sprint(budget), "-deadline", deadline.String()}
					if cold {
						args = append(args, "-cold")
					}
					if race {
						args = append(args, "-progress", prog)
					}
					args = append(args, extra...)
					cmd := exec.Command(filepath.Join(work, bin), args...)
					// plain workers hand the baton over a channel: one P makes that a
					// goroutine switch; race workers park on pipes and need spare Ps
					gmp := "GOMAXPROCS=1"
					if race {
						gmp = "GOMAXPROCS=8"
					}
					cmd.Env = append(os.Environ(), "GORACE=halt_on_error=1 exitcode=66", gmp)
					var eb bytes.Buffer
					cmd.Stderr = &eb
					err := cmd.Run()
					lines, s := readOut(out)
					mu.Lock()
					for _, l := range lines {
						if l.Hash == "epochs" {
							if epochKeys[label] == nil {
								epochKeys[label] = map[uint64]string{}
							}
							epochKeys[label][l.Run] = strings.Join(l.EpochKeys, ",")
							continue
						}
						for _, v := range l.Violations {
							var fk []string
							if strings.HasPrefix(label, "focus") {
								for i, a := range extra {
									if a == "-focus" && i+1 < len(extra) {
										fk = strings.Split(extra[i+1], ",")
									}
								}
							}
							viols = append(viols, found{v: v, run: l.Run, prog: l.Program, bin: bin, nw: nw, base: base, focus: fk})
						}
					}
					if s != nil {
						sums = append(sums, *s)
						if race {
							raceRuns += s.Runs
						}
						if label == "alt" {
							altRuns += s.Runs
						}
					}
					mu.Unlock()
					if err == nil && cold {
						from += uint64(nw)
						left--
						continue
					}
					if err == nil {
						return
					}
					code := -1
					if ee, ok := err.(*exec.ExitError); ok {
						code = ee.ExitCode()
					}
					if race && code == 66 {
						rr := sim.ParseRace(eb.String())
						var p sim.Program
						pb, _ := os.ReadFile(prog)
						if rr == nil || json.Unmarshal(pb, &p) != nil {
							mu.Lock()
							harnessTrouble++
							trouble = append(trouble, "race worker died without a parsable report: "+tail(eb.String()))
							mu.Unlock()
							return
						}
						mu.Lock()
						raceReports++
						if !rr.InLibrary() && rr.InStdlibOnValues() {
							viols = append(viols, found{v: sim.Violation{Property: id, Class: sim.VRace, Op: "values-shared-between-callers",
								Detail: fmt.Sprintf("data race inside the standard library (%s / %s) on memory reachable from values the library returned to two callers", rr.Top[0], rr.Top[1])},
								run: p.Run, prog: &p, race: rr, bin: bin, nw: nw, base: base})
						} else if rr.BetweenCallers() {
							viols = append(viols, found{v: sim.Violation{Property: id, Class: sim.VRace, Op: "values-shared-between-callers",
								Detail: fmt.Sprintf("two callers' own use of their results raced (%s / %s): the library handed the same memory to both", rr.Top[0], rr.Top[1])},
								run: p.Run, prog: &p, race: rr, bin: bin, nw: nw, base: base})
						} else if !rr.InLibrary() {
							harnessTrouble++
							trouble = append(trouble, "race report without a library frame:\n"+rr.Text)
						} else {
							viols = append(viols, found{v: sim.Violation{Property: id, Class: sim.VRace, Op: rr.Signature(),
								Detail: fmt.Sprintf("data race between %s (%s) and %s (%s)", rr.Frames[0], rr.Lines[0], rr.Frames[1], rr.Lines[1])},
								run: p.Run, prog: &p, race: rr, bin: bin, nw: nw, base: base})
						}
						mu.Unlock()
						// continue after the run that raced
						done := int((p.Run-from)/uint64(nw)) + 1
						from += uint64(done) * uint64(nw)
						left -= done
						restarts++
						if restarts > 3 {
							return
						}
						continue
					}
					mu.Lock()
					harnessTrouble++
					trouble = append(trouble, fmt.Sprintf("worker %s exited with %v: %s", bin, err, tail(eb.String())))
					mu.Unlock()
					return
				}
			}(w)
		}
		wg.Wait()
	}

	runBatch("worker", cfg.plain, 0, false, "plain")
	runBatch("worker-race", cfg.race, 1<<40, true, "race")
	if *altVersion != "" {
		runBatch("worker-alt", cfg.alt, 1<<41, false, "alt")
	}

	// Cross-process history independence, only for trees that add
	// package-level state the pinned tree does not have.
	var focusKinds, newState []string
	focusRuns := 0
	coldRuns := 0
	if id == "C20" {
		focusKinds, newState = sim.FocusKinds(filepath.Join(work, "lib", "verif_state.json"))
	}
	if len(focusKinds) > 0 {
		fmt.Printf("note: the tree declares package-level state the pinned tree does not have (%s); focusing on %s\n", strings.Join(newState, ", "), strings.Join(focusKinds, ", "))
		n := cfg.plain / 4
		fk := strings.Join(focusKinds, ",")
		runBatch("worker", n, 1<<42, false, "focus", "-focus", fk, "-epochkeys")
		runBatch("worker", n, 1<<42, false, "focusperm", "-focus", fk, "-epochkeys", "-permute")
		// first use under concurrency: one focus program per fresh process,
		// its concurrent pass before anything has touched the library
		runBatch("worker", n/8, 1<<44, false, "coldfocus", "-focus", fk)
		coldRuns = n / 8
		if cfg.race > 0 {
			// first-use effects (lazy initialisation) are visible once per
			// process: many short-lived race processes on the focus kinds
			for i := 0; i < 4; i++ {
				runBatch("worker-race", cfg.race/16, 1<<43+uint64(i)<<20, true, "racefocus", "-focus", fk)
			}
		}
		var runsDiff []uint64
		for run, k := range epochKeys["focus"] {
			focusRuns++
			if k2, ok := epochKeys["focusperm"][run]; ok && k2 != k {
				runsDiff = append(runsDiff, run)
			}
		}
		sort.Slice(runsDiff, func(i, j int) bool { return runsDiff[i] < runsDiff[j] })
		seenOp := map[string]bool{}
		for _, run := range runsDiff {
			if len(seenOp) >= 3 {
				break
			}
			f := histViolation(run, fk, *treeHash)
			if f != nil && !seenOp[f.v.Op] {
				seenOp[f.v.Op] = true
				viols = append(viols, *f)
			}
		}
	}

	focusInfo["new_package_level_state"] = newState
	focusInfo["focus_operation_kinds"] = focusKinds
	focusInfo["focus_runs_compared_across_two_fresh_processes"] = focusRuns
	focusInfo["cold_start_runs_one_per_fresh_process"] = coldRuns
	focusInfo["note"] = "only exercised when the tree declares package-level variables the pinned tree does not have; then focus programs (same calls under different DefaultRoundingMode values in consecutive epochs, few operands) run in two fresh processes with the epochs in opposite order and every epoch's results must agree"
	// triage (worker failures are dealt with below: a violation that a
	// healthy worker found and that replays is a verdict whatever happened
	// to the others; without one, trouble means no verdict)
	knownHit := map[string]int{}
	var unknown []found
	for _, f := range viols {
		if f.v.Class == sim.VHarnessFail {
			fail("harness failure in run %d: %s", f.run, f.v.Detail)
		}
		if k := kf.match(f.v); k != nil {
			knownHit[k.ID]++
			continue
		}
		unknown = append(unknown, f)
	}
	for _, k := range kf.Known {
		if knownHit[k.ID] > 0 {
			fmt.Printf("KNOWN-FINDING: property=%s %s: %s (seen %d times in this run)\n", k.Property, k.ID, k.What, knownHit[k.ID])
		}
	}
	sort.SliceStable(unknown, func(i, j int) bool { return unknown[i].run < unknown[j].run })
	bySig := map[string]bool{}
	var reported []string
	nViol := 0
	for _, f := range unknown {
		sig := f.v.Sig()
		if bySig[sig] {
			continue
		}
		bySig[sig] = true
		nViol++
		if len(reported) >= 4 {
			continue
		}
		path := writeReplay(f, *treeHash)
		reported = append(reported, path)
		fmt.Printf("VIOLATION property=%s replay=%s\n", id, path)
		fmt.Printf("  class=%s op=%s seed=%d run=%d\n  %s\n", f.v.Class, f.v.Op, seed, f.run, f.v.Detail)
	}

	if harnessTrouble > 0 {
		for _, t := range trouble {
			fmt.Fprintln(os.Stderr, "ctl:", t)
		}
		if nViol == 0 {
			fail("%d worker failures (harness or build trouble)", harnessTrouble)
		}
		fmt.Fprintf(os.Stderr, "ctl: %d worker failures besides the violations reported above (their runs are not counted)\n", harnessTrouble)
	}
	writeEvidence(cfg, sums, time.Since(start).Seconds(), nViol, raceRuns, raceReports, altRuns, *altVersion, knownHit, *treeHash)
	if nViol > 0 {
		os.Exit(1)
	}
	fmt.Printf("OK property=%s tier=%s runs=%d wall=%.1fs\n", id, tier, totalRuns(sums), time.Since(start).Seconds())
}

func totalRuns(sums []summary) int {
	n := 0
	for _, s := range sums {
		n += s.Runs
	}
	return n
}

func tail(s string) string {
	if len(s) > 1500 {
		return "..." + s[len(s)-1500:]
	}
	return s
}

func readOut(path string) ([]runLine, *summary) {
	f, err := os.Open(path)
	if err != nil {
		return nil, nil
	}
	defer f.Close()
	var lines []runLine
	var sum *summary
	sc := bufio.NewScanner(f)
	sc.Buffer(make([]byte, 1<<20), 1<<28)
	for sc.Scan() {
		var l runLine
		if json.Unmarshal(sc.Bytes(), &l) != nil {
			continue
		}
		if l.Summary != nil {
			sum = l.Summary
			continue
		}
		lines = append(lines, l)
	}
	return lines, sum
}

func loadKnown() *knownFile {
	kf := &knownFile{}
	b, err := os.ReadFile(filepath.Join(verif, "known_findings.json"))
	if err != nil {
		return kf
	}
	if err := json.Unmarshal(b, kf); err != nil {
		fail("known_findings.json: %v", err)
	}
	for i := range kf.Known {
		re, err := regexp.Compile(kf.Known[i].Detail)
		if err != nil {
			fail("known_findings.json: %v", err)
		}
		kf.Known[i].re = re
	}
	return kf
}

func (kf *knownFile) match(v sim.Violation) *known {
	for i := range kf.Known {
		k := &kf.Known[i]
		if k.Property == v.Property && k.Class == v.Class && k.Op == v.Op && k.re.MatchString(v.Detail) {
			return k
		}
	}
	return nil
}

// writeReplay stores the violation, minimises it and re-verifies the result
// in a fresh process.
// histViolation re-creates the focus program of a run whose epoch results
// differed between the two fresh processes, confirms the difference and
// returns it as a violation (nil if it does not reproduce).
func histViolation(run uint64, fk string, tree string) *found {
	cmd := exec.Command(filepath.Join(work, "worker"), "-profile", "P20", "-seed", fmt.Sprint(seed), "-from", fmt.Sprint(run), "-n", "1", "-focus", fk, "-dump")
	out, err := cmd.Output()
	if err != nil {
		return nil
	}
	var p sim.Program
	if json.Unmarshal(bytes.TrimSpace(out), &p) != nil {
		return nil
	}
	tmp := filepath.Join(work, fmt.Sprintf("hist-%d.json", run))
	b, _ := json.Marshal(sim.ReplayFile{Program: &p})
	os.WriteFile(tmp, b, 0o644)
	c := exec.Command(filepath.Join(work, "worker"), "-histcheck", tmp, "-budget", fmt.Sprint(budget))
	det, err := c.Output()
	ee, ok := err.(*exec.ExitError)
	if !ok || ee.ExitCode() != 1 {
		return nil
	}
	detail := strings.TrimSpace(string(det))
	op := "?"
	if i := strings.Index(detail, "operation "); i >= 0 {
		f := strings.Fields(detail[i+len("operation "):])
		if len(f) >= 2 {
			op = strings.TrimSuffix(f[1], ":")
		}
	}
	return &found{v: sim.Violation{Property: id, Class: sim.VHistory, Op: op, Detail: detail}, run: run, prog: &p, bin: "worker"}
}

var writtenReplays = map[string]bool{}

func writeReplay(f found, tree string) string {
	dir := filepath.Join(verif, "replays")
	os.MkdirAll(dir, 0o755)
	path := filepath.Join(dir, fmt.Sprintf("%s-%d-%d.json", id, seed, f.run))
	// one run may show violations with different signatures: one file each
	for n := 2; writtenReplays[path]; n++ {
		path = filepath.Join(dir, fmt.Sprintf("%s-%d-%d.%d.json", id, seed, f.run, n))
	}
	writtenReplays[path] = true
	rf := sim.ReplayFile{Property: id, Class: f.v.Class, Op: f.v.Op, Detail: f.v.Detail, Signature: f.v.Sig(), Seed: seed, Run: f.run, TreeHash: tree, Program: f.prog}
	if f.race != nil {
		rf.RaceText = f.race.Text
		rf.Signature = f.race.Signature()
	}
	b, _ := json.MarshalIndent(&rf, "", " ")
	if err := os.WriteFile(path, b, 0o644); err != nil {
		fail("%v", err)
	}
	args := []string{"-minimize", path, "-budget", fmt.Sprint(budget)}
	if f.race != nil {
		args = append(args, "-racemin", "-minbudget", "80")
	}
	if f.v.Class == sim.VHistory {
		args = append(args, "-minbudget", "60")
	}
	// A candidate may send the library into work that never ends inside a
	// dependency (no statement of the library executes, so the step budget
	// does not see it): minimisation is bounded in wall-clock time, and the
	// unminimised file is restored when the bound is hit.
	runMin := func(orig []byte) error {
		ctx, cancel := context.WithTimeout(context.Background(), 5*time.Minute)
		defer cancel()
		cmd := exec.CommandContext(ctx, filepath.Join(work, f.bin), args...)
		cmd.Stderr = os.Stderr
		err := cmd.Run()
		if ctx.Err() != nil {
			os.WriteFile(path, orig, 0o644)
			return fmt.Errorf("stopped after 5 minutes")
		}
		return err
	}
	err := runMin(b)
	if ee, ok := err.(*exec.ExitError); ok && ee.ExitCode() == 3 && f.nw > 0 {
		// Not reproducible from a fresh process: the library kept state from
		// earlier runs of the same worker. Record those runs as warm-up.
		w := f.run % uint64(f.nw)
		base := f.base
		rf.Warmup = &sim.Warmup{Profile: f.prog.Profile, Seed: seed, From: base + (f.run-base)%uint64(f.nw), Stride: uint64(f.nw), Count: int((f.run - base) / uint64(f.nw)), Focus: f.focus}
		_ = w
		rf.Notes = append(rf.Notes, "the violation needs the process history: the replay first re-executes the runs the worker had executed before")
		b, _ := json.MarshalIndent(&rf, "", " ")
		os.WriteFile(path, b, 0o644)
		err = runMin(b)
	}
	if err != nil {
		fmt.Fprintf(os.Stderr, "ctl: minimisation of %s did not complete (%v); the unminimised trace is kept\n", path, err)
	}
	return path
}

func doReplay(path string, cfg tierCfg) int {
	b, err := os.ReadFile(path)
	if err != nil {
		fail("%v", err)
	}
	var rf sim.ReplayFile
	if err := json.Unmarshal(b, &rf); err != nil || rf.Program == nil {
		fail("bad replay file %s: %v", path, err)
	}
	if rf.Property != id {
		fail("replay file is for %s, not %s", rf.Property, id)
	}
	if rf.Class == sim.VRace {
		// the detector's view of fmt/json scratch pools is not owned by the
		// simulator: a race report may need a few attempts
		for i := 0; i < 5; i++ {
			cmd := exec.Command(filepath.Join(work, "worker-race"), "-replay", path, "-budget", fmt.Sprint(budget))
			cmd.Env = append(os.Environ(), "GORACE=halt_on_error=1 exitcode=66")
			var eb bytes.Buffer
			cmd.Stderr = &eb
			cmd.Run()
			if rr := sim.ParseRace(eb.String()); sim.SameRace(rf.Signature, rr) {
				fmt.Printf("VIOLATION property=%s replay=%s\n  data race reproduced (attempt %d): %s / %s\n", id, path, i+1, rr.Frames[0], rr.Frames[1])
				return 1
			}
		}
		fmt.Printf("replay of %s: the race did not reproduce in 5 attempts\n", path)
		return 0
	}
	if rf.Class == sim.VHistory {
		c := exec.Command(filepath.Join(work, "worker"), "-histcheck", path, "-budget", fmt.Sprint(budget))
		det, err := c.Output()
		if ee, ok := err.(*exec.ExitError); ok && ee.ExitCode() == 1 {
			fmt.Printf("VIOLATION property=%s replay=%s\n  class=%s\n  %s\n", id, path, rf.Class, strings.TrimSpace(string(det)))
			return 1
		} else if err != nil {
			fail("history replay failed: %v", err)
		}
		fmt.Printf("replay of %s: the epochs give the same results in both orders on this tree\n", path)
		return 0
	}
	cmd := exec.Command(filepath.Join(work, "worker"), "-replay", path, "-budget", fmt.Sprint(budget))
	var ob, eb bytes.Buffer
	cmd.Stdout = &ob
	cmd.Stderr = &eb
	err = cmd.Run()
	if ee, ok := err.(*exec.ExitError); ok && ee.ExitCode() == 2 || err != nil && !isExit(err) {
		fail("replay worker failed: %v %s", err, tail(eb.String()))
	}
	var l runLine
	json.Unmarshal(bytes.TrimSpace(ob.Bytes()), &l)
	for _, v := range l.Violations {
		if v.Sig() == rf.Signature {
			fmt.Printf("VIOLATION property=%s replay=%s\n  class=%s op=%s\n  %s\n", id, path, v.Class, v.Op, v.Detail)
			return 1
		}
	}
	fmt.Printf("replay of %s: violation %s did not reproduce on this tree\n", path, rf.Signature)
	return 0
}

func isExit(err error) bool {
	_, ok := err.(*exec.ExitError)
	return ok
}

var focusInfo = map[string]any{}

func writeEvidence(cfg tierCfg, sums []summary, wall float64, nViol, raceRuns, raceReports, altRuns int, altVersion string, knownHit map[string]int, tree string) {
	nontrivial := map[string]bool{}
	schedules := map[string]bool{}
	overlaps := map[string]bool{}
	sites := map[int]bool{}
	faults := map[string]int{}
	opKinds := map[string]int{}
	var runs, ops, faulty, clean, noerr, siteTotal int
	var steps, switches, preempts, maxOp, syncPre, fairYields, bigCalls, bigCost uint64
	sharedIn := 0
	var samples []any
	var trace []string
	for _, s := range sums {
		runs += s.Runs
		ops += s.Ops
		steps += s.Steps
		bigCalls += s.BigCalls
		bigCost += s.BigCost
		switches += s.Switches
		preempts += s.Preempts
		syncPre += s.SyncPre
		fairYields += s.FairYields
		sharedIn += s.SharedIn
		faulty += s.FaultyRuns
		clean += s.CleanRuns
		noerr += s.NoErrRuns
		if s.MaxOpSteps > maxOp {
			maxOp = s.MaxOpSteps
		}
		siteTotal = s.Sites
		for _, h := range s.Nontrivial {
			nontrivial[h] = true
		}
		for _, h := range s.Schedules {
			schedules[h] = true
		}
		for _, h := range s.Overlaps {
			overlaps[h] = true
		}
		for _, x := range s.SitesHit {
			sites[x] = true
		}
		for k, v := range s.Faults {
			faults[k] += v
		}
		for k, v := range s.OpKinds {
			opKinds[k] += v
		}
		if len(samples) < 3 {
			for _, p := range s.Samples {
				if len(samples) < 3 {
					samples = append(samples, trimProgram(p))
				}
			}
		}
		if trace == nil && len(s.SampleTrace) > 0 {
			trace = s.SampleTrace
		}
	}
	if len(samples) == 0 {
		samples = append(samples, "no sample captured")
	}
	if runs == 0 {
		fail("no runs were executed")
	}
	toolchains := []string{runtime.Version()}
	if altVersion != "" && altRuns > 0 {
		toolchains = append(toolchains, altVersion)
	}
	kh := map[string]int{}
	for k, v := range knownHit {
		kh[k] = v
	}
	ev := map[string]any{
		"property_id": id,
		"tier":        tier,
		"seed":        seed,
		"level":       "exploration",
		"wall_s":      wall,
		"violations":  nViol,
		"coverage": map[string]any{
			"evaluations":                           runs,
			"distinct_nontrivial":                   len(nontrivial),
			"rule":                                  "one evaluation = one simulated run: a seeded Program (1-3 epochs of 1-6 simulated caller goroutines, each with a list of library calls on shared and caller-owned objects, plus stream fault plans) executed once sequentially and once under its seeded schedule. A run is non-trivial if at least one mid-operation pre-emption fired, or at least one injected fault fired, or some task called the library at least twice on caller-owned objects it keeps; distinct = distinct hash of (program, realised schedule event log, fired fault counters).",
			"samples":                               samples,
			"sample_schedule_trace":                 trace,
			"runs_per_hour":                         float64(runs) / wall * 3600,
			"seeds_note":                            "every run derives its own PRNG stream from (VERIF_SEED, run index, profile), so runs_per_hour is also the number of distinct PRNG seeds explored per hour; VERIF_SEED selects the family",
			"operations":                            ops,
			"logical_steps":                         steps,
			"simulated_time_note":                   "the library has no clock; logical time is the number of statements executed (logical_steps)",
			"context_switches":                      switches,
			"mid_operation_preemptions":             preempts,
			"preemptions_at_synchronisation_events": syncPre,
			"fairness_yields":                       fairYields,
			"inputs_shared_read_only_between_tasks": sharedIn,
			"distinct_schedules":                    len(schedules),
			"distinct_overlap_triples":              len(overlaps),
			"yield_sites_hit":                       len(sites),
			"yield_sites_total":                     siteTotal,
			"faults_fired":                          faults,
			"runs_with_faults":                      faulty,
			"runs_fault_free":                       clean,
			"runs_without_error_faults":             noerr,
			"fault_accounting_note":                 "faults_fired counts events that actually fired. frag/short-write/backpressure/stall only perturb delivery and leave the oracle strict; err-transient/err-sticky/data+err/eof-early are error faults, after which the oracle accepts an error return for the affected token or document (never a wrong value). runs_without_error_faults are judged with no relaxation at all.",
			"op_kinds":                              opKinds,
			"max_steps_of_one_operation":            maxOp,
			"step_budget":                           budget,
			"math_big_calls_charged":                bigCalls,
			"math_big_steps_charged":                bigCost,
			"math_big_note":                         "the superlinear operations of *big.Int/*big.Rat inside the library are charged to the logical clock before they run (schoolbook upper bound from the operands' sizes), so work inside math/big counts towards the step budget",
			"race_build_runs":                       raceRuns,
			"race_reports":                          raceReports,
			"alt_toolchain_runs":                    altRuns,
			"toolchains":                            toolchains,
			"known_findings_seen":                   kh,
			"tree_hash":                             tree,
			"new_shared_state_focus":                focusInfo,
			"profile":                               cfg.profile,
			"workers":                               runtime.NumCPU(),
			"components_real":                       []string{"library (go/ast-instrumented copy of /repo's working tree)", "fmt", "encoding/json", "math/big", "bufio", "strconv"},
			"components_stub":                       []string{"scheduler (one task runs at a time; raw-syscall baton in race builds, one-slot channel with GOMAXPROCS=1 otherwise)", "byte streams and their faults", "simulator-owned fmt.State", "database/sql driver hand-over (Decompose/hold/Compose)", "stand-ins for hash/maphash and math/rand keyed by VERIF_HASHKEY and a monotonic logical clock with planned forward jumps for time.Now/Since/Until (only in trees that use them; the pinned tree uses none, so none was exercised in this run unless the focus section says otherwise)"},
		},
		"assumptions": []string{
			"the inputs quantifier is only sampled by the seeded, boundary-biased generators; a clean batch is evidence, not proof",
			"reference models (dsim/ref) are correct; their fmt layout part is validated against the real fmt by go test ./ref",
			"race reports on operations wrapped in fmt/encoding/json can be hidden (never invented) by sync.Pool happens-before edges",
		},
	}
	b, _ := json.MarshalIndent(ev, "", " ")
	evdir := filepath.Join(verif, "evidence")
	if d := os.Getenv("VERIF_EVIDENCE_DIR"); d != "" {
		// a run against another tree than /repo (self-tests) must not
		// overwrite the evidence of the registered checks
		evdir = d
	}
	os.MkdirAll(evdir, 0o755)
	tmp := filepath.Join(evdir, id+".json.tmp")
	if err := os.WriteFile(tmp, b, 0o644); err != nil {
		fail("%v", err)
	}
	if err := os.Rename(tmp, filepath.Join(evdir, id+".json")); err != nil {
		fail("%v", err)
	}
}

// trimProgram keeps a sample readable: long byte strings are cut.
func trimProgram(p *sim.Program) any {
	b, _ := json.Marshal(p)
	var v any
	json.Unmarshal(b, &v)
	return trim(v)
}

func trim(v any) any {
	switch x := v.(type) {
	case map[string]any:
		for k, e := range x {
			x[k] = trim(e)
		}
	case []any:
		if len(x) > 12 {
			x = append(x[:12:12], fmt.Sprintf("... %d more", len(x)-12))
		}
		for i, e := range x {
			x[i] = trim(e)
		}
		return x
	case string:
		if len(x) > 96 {
			return x[:96] + fmt.Sprintf("...(%d chars)", len(x))
		}
	}
	return v
}

var _ = sha256.Sum256
var _ = strings.TrimSpace
